package cluster

import (
	"context"
	"fmt"
	"net"
	"sync"

	"github.com/feichai0017/NoKV/pb"
	"github.com/feichai0017/NoKV/raftstore/client"
	"github.com/feichai0017/NoKV/raftstore/kv"
	"google.golang.org/grpc"
	"google.golang.org/grpc/codes"
	"google.golang.org/grpc/credentials/insecure"
	"google.golang.org/grpc/status"
	"google.golang.org/grpc/test/bufconn"
)

// nodeService exposes the real raftstore/kv.Service of a node's current
// store incarnation over gRPC. It only adds the up/down gate of the harness.
type nodeService struct {
	pb.UnimplementedTinyKvServer
	c   *Cluster
	idx int
}

func (s *nodeService) svc() (*kv.Service, func(), error) {
	n := s.c.Nodes[s.idx]
	n.gate.RLock()
	if n.down {
		n.gate.RUnlock()
		return nil, nil, status.Error(codes.Unavailable, "store down")
	}
	return kv.NewService(n.st), n.gate.RUnlock, nil
}

func (s *nodeService) KvGet(ctx context.Context, req *pb.KvGetRequest) (*pb.KvGetResponse, error) {
	svc, done, err := s.svc()
	if err != nil {
		return nil, err
	}
	defer done()
	return svc.KvGet(ctx, req)
}
func (s *nodeService) KvBatchGet(ctx context.Context, req *pb.KvBatchGetRequest) (*pb.KvBatchGetResponse, error) {
	svc, done, err := s.svc()
	if err != nil {
		return nil, err
	}
	defer done()
	return svc.KvBatchGet(ctx, req)
}
func (s *nodeService) KvScan(ctx context.Context, req *pb.KvScanRequest) (*pb.KvScanResponse, error) {
	svc, done, err := s.svc()
	if err != nil {
		return nil, err
	}
	defer done()
	return svc.KvScan(ctx, req)
}
func (s *nodeService) KvPrewrite(ctx context.Context, req *pb.KvPrewriteRequest) (*pb.KvPrewriteResponse, error) {
	svc, done, err := s.svc()
	if err != nil {
		return nil, err
	}
	defer done()
	return svc.KvPrewrite(ctx, req)
}
func (s *nodeService) KvCommit(ctx context.Context, req *pb.KvCommitRequest) (*pb.KvCommitResponse, error) {
	svc, done, err := s.svc()
	if err != nil {
		return nil, err
	}
	defer done()
	return svc.KvCommit(ctx, req)
}
func (s *nodeService) KvBatchRollback(ctx context.Context, req *pb.KvBatchRollbackRequest) (*pb.KvBatchRollbackResponse, error) {
	svc, done, err := s.svc()
	if err != nil {
		return nil, err
	}
	defer done()
	return svc.KvBatchRollback(ctx, req)
}
func (s *nodeService) KvResolveLock(ctx context.Context, req *pb.KvResolveLockRequest) (*pb.KvResolveLockResponse, error) {
	svc, done, err := s.svc()
	if err != nil {
		return nil, err
	}
	defer done()
	return svc.KvResolveLock(ctx, req)
}
func (s *nodeService) KvCheckTxnStatus(ctx context.Context, req *pb.KvCheckTxnStatusRequest) (*pb.KvCheckTxnStatusResponse, error) {
	svc, done, err := s.svc()
	if err != nil {
		return nil, err
	}
	defer done()
	return svc.KvCheckTxnStatus(ctx, req)
}

// KVFront is a set of in-memory gRPC servers (one per store) in front of the
// cluster's stores, plus what a raftstore/client.Client needs to reach them.
type KVFront struct {
	c       *Cluster
	servers []*grpc.Server
	lis     []*bufconn.Listener
	once    sync.Once
}

// ServeKV starts one bufconn gRPC server per store serving the TinyKv service.
func (c *Cluster) ServeKV() *KVFront {
	f := &KVFront{c: c}
	for i := range c.Nodes {
		l := bufconn.Listen(1 << 20)
		srv := grpc.NewServer()
		pb.RegisterTinyKvServer(srv, &nodeService{c: c, idx: i})
		go func() { _ = srv.Serve(l) }()
		f.servers = append(f.servers, srv)
		f.lis = append(f.lis, l)
	}
	return f
}

// Close stops the gRPC servers.
func (f *KVFront) Close() {
	f.once.Do(func() {
		for _, s := range f.servers {
			s.Stop()
		}
	})
}

// Endpoints returns the store endpoints (addresses are resolved by Dialer).
func (f *KVFront) Endpoints() []client.StoreEndpoint {
	var out []client.StoreEndpoint
	for i := range f.lis {
		out = append(out, client.StoreEndpoint{StoreID: uint64(i + 1), Addr: fmt.Sprintf("passthrough:///store-%d", i+1)})
	}
	return out
}

// DialOptions returns the dial options for a client: the bufconn dialer,
// insecure credentials and the given unary interceptors.
func (f *KVFront) DialOptions(interceptors ...grpc.UnaryClientInterceptor) []grpc.DialOption {
	opts := []grpc.DialOption{
		grpc.WithTransportCredentials(insecure.NewCredentials()),
		grpc.WithContextDialer(func(ctx context.Context, addr string) (net.Conn, error) {
			var id int
			if _, err := fmt.Sscanf(addr, "store-%d", &id); err != nil || id < 1 || id > len(f.lis) {
				return nil, fmt.Errorf("unknown bufconn address %q", addr)
			}
			return f.lis[id-1].DialContext(ctx)
		}),
	}
	if len(interceptors) > 0 {
		opts = append(opts, grpc.WithChainUnaryInterceptor(interceptors...))
	}
	return opts
}

// Resolver is a static client.RegionResolver over the cluster's region layout.
type Resolver struct{ regions []*pb.RegionMeta }

// Resolver returns the static resolver for this cluster.
func (c *Cluster) Resolver() *Resolver {
	r := &Resolver{}
	for _, spec := range c.opt.Regions {
		m := c.regionMeta(spec)
		p := &pb.RegionMeta{Id: m.ID, StartKey: m.StartKey, EndKey: m.EndKey, EpochVersion: m.Epoch.Version, EpochConfVersion: m.Epoch.ConfVersion}
		for _, pm := range m.Peers {
			p.Peers = append(p.Peers, &pb.RegionPeer{StoreId: pm.StoreID, PeerId: pm.PeerID})
		}
		r.regions = append(r.regions, p)
	}
	return r
}

func inRegion(m *pb.RegionMeta, key []byte) bool {
	if len(m.StartKey) > 0 && string(key) < string(m.StartKey) {
		return false
	}
	return len(m.EndKey) == 0 || string(key) < string(m.EndKey)
}

// RegionOf returns the region id owning a key.
func (r *Resolver) RegionOf(key []byte) uint64 {
	for _, m := range r.regions {
		if inRegion(m, key) {
			return m.Id
		}
	}
	return 0
}

// GetRegionByKey implements client.RegionResolver.
func (r *Resolver) GetRegionByKey(_ context.Context, req *pb.GetRegionByKeyRequest) (*pb.GetRegionByKeyResponse, error) {
	for _, m := range r.regions {
		if inRegion(m, req.GetKey()) {
			cp := &pb.RegionMeta{Id: m.Id, StartKey: append([]byte(nil), m.StartKey...), EndKey: append([]byte(nil), m.EndKey...),
				EpochVersion: m.EpochVersion, EpochConfVersion: m.EpochConfVersion}
			for _, p := range m.Peers {
				cp.Peers = append(cp.Peers, &pb.RegionPeer{StoreId: p.StoreId, PeerId: p.PeerId})
			}
			return &pb.GetRegionByKeyResponse{Region: cp}, nil
		}
	}
	return &pb.GetRegionByKeyResponse{NotFound: true}, nil
}

// Close implements client.RegionResolver.
func (r *Resolver) Close() error { return nil }
