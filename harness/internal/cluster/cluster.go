// Package cluster is the in-process multi-store raft cluster engine (E-cluster,
// DESIGN.md §3.5): N raftstore/store.Store instances, each over its own real
// NoKV.DB (raft log in the DB's WAL, raft pointers in its manifest, exactly as
// raftstore/server and cmd/nokv serve wire a store), connected by a harness
// transport.Transport that drops, duplicates, delays, reorders and partitions
// raft messages under the control of a PRNG. Raft ticks are issued by the
// harness (one pump goroutine delivers due messages and ticks all stores in
// lockstep rounds).
//
// The CommandApplier handed to every store is kv.NewApplier(db) wrapped by a
// recorder: for every non-read-only command it logs, per (store, incarnation,
// region), the sequence of applied commands by the unique marker each harness
// command carries, and keeps the response pointer that this very application
// produced (kept alive, so pointer identity is meaningful).
package cluster

import (
	"errors"
	"container/heap"
	"fmt"
	"io"
	"log"
	"math/rand"
	"os"
	"path/filepath"
	"sync"
	"sync/atomic"
	"time"

	NoKV "github.com/feichai0017/NoKV"
	"github.com/feichai0017/NoKV/manifest"
	"github.com/feichai0017/NoKV/pb"
	myraft "github.com/feichai0017/NoKV/raft"
	"github.com/feichai0017/NoKV/raftstore/kv"
	"github.com/feichai0017/NoKV/raftstore/peer"
	"github.com/feichai0017/NoKV/raftstore/store"
	"verif/harness/internal/dbx"
)

// RegionSpec describes one region hosted by every store.
type RegionSpec struct {
	ID    uint64
	Start []byte
	End   []byte
}

// Options configures a cluster.
type Options struct {
	Dir            string
	Stores         int
	Regions        []RegionSpec
	Rng            *rand.Rand // network PRNG (message fates)
	CommandTimeout time.Duration
	StepSleep      time.Duration // pause between pump steps (scheduling only)
	TickEvery      int           // pump steps per raft tick
	ElectionTick   int
	HeartbeatTick  int
	MaxSizePerMsg  uint64 // raft MaxSizePerMsg (also bounds the committed entries handed out per Ready); default 1 MiB
	DB             dbx.Config
}

// AppliedRec is one application of a (non-read-only) command on one store.
type AppliedRec struct {
	Store       int                 `json:"store"`
	Incarnation int                 `json:"incarnation"`
	Region      uint64              `json:"region"`
	Marker      string              `json:"marker"`
	RequestID   uint64              `json:"request_id"`
	PeerID      uint64              `json:"proposer_peer_id"`
	Pos         int                 `json:"pos"`   // position in the (store, incarnation, region) sequence
	Clock       int64               `json:"clock"` // logical time of the application (same clock as call/return events)
	Resp        *pb.RaftCmdResponse `json:"-"`
	Req         *pb.RaftCmdRequest  `json:"-"`
	Err         string              `json:"err,omitempty"`
}

// SeqKey identifies one applied sequence.
type SeqKey struct {
	Store       int
	Incarnation int
	Region      uint64
}

func (k SeqKey) String() string { return fmt.Sprintf("s%d.i%d.r%d", k.Store, k.Incarnation, k.Region) }

// Node is one store.
type Node struct {
	Idx     int
	StoreID uint64
	dir     string

	gate sync.RWMutex
	down bool
	inc  int
	db   *NoKV.DB
	st   *store.Store

	applyDelay atomic.Int64 // nanoseconds slept before each applied write command
	busy       atomic.Int32 // asynchronous deliveries in progress
}

// Cluster is a running in-process cluster.
type Cluster struct {
	async atomic.Bool
	opt   Options
	Nodes []*Node
	net   *Net
	stop  chan struct{}
	wg    sync.WaitGroup
	clock atomic.Int64

	recMu   sync.Mutex
	seqs    map[SeqKey][]*AppliedRec
	byPtr   map[*pb.RaftCmdResponse]*AppliedRec
	applied atomic.Int64

	// ApplyObserver, when set before any traffic, is called after every
	// recorded application (planted-break experiments, extra monitors).
	ApplyObserver func(rec *AppliedRec)
}

var quietRaft sync.Once

// PeerID is the raft peer id of region r on store index i (unique per router).
func PeerID(region uint64, storeIdx int) uint64 { return region*100 + uint64(storeIdx+1) }

// Epoch is the region epoch every harness request carries.
func Epoch() *pb.RegionEpoch { return &pb.RegionEpoch{Version: 1, ConfVer: 1} }

// Now returns the next value of the cluster's logical clock. Call/return
// events stamped with it are totally ordered consistently with real time.
func (c *Cluster) Now() int64 { return c.clock.Add(1) }

// New builds and starts a cluster.
func New(opt Options) (*Cluster, error) {
	if opt.Stores <= 0 {
		opt.Stores = 3
	}
	if opt.CommandTimeout <= 0 {
		opt.CommandTimeout = time.Second
	}
	if opt.StepSleep <= 0 {
		opt.StepSleep = time.Millisecond
	}
	if opt.TickEvery <= 0 {
		opt.TickEvery = 2
	}
	if opt.ElectionTick <= 0 {
		opt.ElectionTick = 10
	}
	if opt.MaxSizePerMsg == 0 {
		opt.MaxSizePerMsg = 1 << 20
	}
	if opt.HeartbeatTick <= 0 {
		opt.HeartbeatTick = 2
	}
	quietRaft.Do(func() {
		myraft.SetLogger(&myraft.DefaultLogger{Logger: log.New(io.Discard, "", 0)})
	})
	c := &Cluster{opt: opt, stop: make(chan struct{}), seqs: map[SeqKey][]*AppliedRec{}, byPtr: map[*pb.RaftCmdResponse]*AppliedRec{}}
	c.net = newNet(opt.Stores, opt.Rng)
	for _, r := range opt.Regions {
		for i := 0; i < opt.Stores; i++ {
			c.net.peerStore[PeerID(r.ID, i)] = i
		}
	}
	for i := 0; i < opt.Stores; i++ {
		n := &Node{Idx: i, StoreID: uint64(i + 1), dir: filepath.Join(opt.Dir, fmt.Sprintf("store-%d", i+1)), down: true}
		c.Nodes = append(c.Nodes, n)
	}
	for _, n := range c.Nodes {
		if err := c.Start(n.Idx); err != nil {
			c.Close()
			return nil, err
		}
	}
	c.wg.Add(1)
	go c.pump()
	return c, nil
}

func (c *Cluster) regionMeta(r RegionSpec) manifest.RegionMeta {
	m := manifest.RegionMeta{ID: r.ID, StartKey: append([]byte(nil), r.Start...), EndKey: append([]byte(nil), r.End...),
		Epoch: manifest.RegionEpoch{Version: 1, ConfVersion: 1}}
	for i := 0; i < c.opt.Stores; i++ {
		m.Peers = append(m.Peers, manifest.PeerMeta{StoreID: uint64(i + 1), PeerID: PeerID(r.ID, i)})
	}
	return m
}

type nodeTransport struct {
	net  *Net
	from int
}

func (t nodeTransport) Send(msg myraft.Message) { t.net.send(t.from, msg) }

// Start (re)opens the store's DB and starts its peers. The store must be down.
func (c *Cluster) Start(idx int) error {
	n := c.Nodes[idx]
	n.gate.Lock()
	defer n.gate.Unlock()
	if !n.down {
		return fmt.Errorf("store %d already up", idx)
	}
	db, err := dbx.Open(c.opt.DB.Options(n.dir))
	if err != nil {
		return err
	}
	if c.opt.DB.Controlled {
		db.VerifLSM().VerifSetCompactionPaused(true)
	}
	n.inc++
	inc := n.inc
	inner := kv.NewApplier(db)
	applier := func(req *pb.RaftCmdRequest) (*pb.RaftCmdResponse, error) {
		if d := n.applyDelay.Load(); d > 0 && !readOnly(req) {
			time.Sleep(time.Duration(d)) // a slow state machine (perturbation only)
		}
		resp, aerr := inner(req)
		if readOnly(req) {
			return resp, aerr
		}
		c.record(idx, inc, req, resp, aerr)
		return resp, aerr
	}
	// children of a split are built like the bootstrapped peers
	builder := func(meta manifest.RegionMeta) (*peer.Config, error) {
		var pid uint64
		for _, p := range meta.Peers {
			if p.StoreID == n.StoreID {
				pid = p.PeerID
			}
		}
		if pid == 0 {
			return nil, fmt.Errorf("region %d has no peer on store %d", meta.ID, n.StoreID)
		}
		return &peer.Config{
			RaftConfig: myraft.Config{ID: pid, ElectionTick: c.opt.ElectionTick, HeartbeatTick: c.opt.HeartbeatTick,
				MaxSizePerMsg: c.opt.MaxSizePerMsg, MaxInflightMsgs: 256, PreVote: true},
			Transport: nodeTransport{c.net, idx},
			Apply:     kv.NewEntryApplier(db),
			WAL:       db.WAL(),
			Manifest:  db.Manifest(),
			GroupID:   meta.ID,
			Region:    manifest.CloneRegionMetaPtr(&meta),
		}, nil
	}
	st := store.NewStoreWithConfig(store.Config{StoreID: n.StoreID, CommandApplier: applier, CommandTimeout: c.opt.CommandTimeout, PeerBuilder: builder})
	for _, r := range c.opt.Regions {
		meta := c.regionMeta(r)
		cfg := &peer.Config{
			RaftConfig: myraft.Config{
				ID:              PeerID(r.ID, idx),
				ElectionTick:    c.opt.ElectionTick,
				HeartbeatTick:   c.opt.HeartbeatTick,
				MaxSizePerMsg:   c.opt.MaxSizePerMsg,
				MaxInflightMsgs: 256,
				PreVote:         true,
			},
			Transport: nodeTransport{c.net, idx},
			Apply:     kv.NewEntryApplier(db), // replaced by the store with its command pipeline, as in production
			WAL:       db.WAL(),
			Manifest:  db.Manifest(),
			GroupID:   r.ID,
			Region:    manifest.CloneRegionMetaPtr(&meta),
		}
		var boot []myraft.Peer
		for _, p := range meta.Peers {
			boot = append(boot, myraft.Peer{ID: p.PeerID})
		}
		if _, err := st.StartPeer(cfg, boot); err != nil {
			st.Close()
			_ = db.Close()
			return fmt.Errorf("start peer region %d on store %d: %w", r.ID, idx, err)
		}
	}
	n.db, n.st = db, st
	n.down = false
	c.net.setDown(idx, false)
	return nil
}

// Stop shuts a store down the way a server process exits: the pump stops
// stepping and ticking it, in-flight client calls drain (or time out), the
// store's background loops stop and the DB is closed. Peers are not removed
// from the region catalog.
func (c *Cluster) Stop(idx int) error {
	n := c.Nodes[idx]
	c.net.setDown(idx, true)
	n.gate.Lock()
	defer n.gate.Unlock()
	if n.down {
		return nil
	}
	n.down = true
	for _, h := range n.st.Peers() {
		_ = h.Peer.Close()
	}
	n.st.Close()
	err := n.db.Close()
	n.db, n.st = nil, nil
	return err
}

// Close stops everything.
func (c *Cluster) Close() {
	select {
	case <-c.stop:
	default:
		close(c.stop)
	}
	c.wg.Wait()
	t0 := time.Now()
	for _, n := range c.Nodes {
		_ = c.Stop(n.Idx)
		if os.Getenv("CLUSTER_DEBUG") != "" {
			fmt.Fprintf(os.Stderr, "[cluster close] store %d stopped after %dms\n", n.Idx, time.Since(t0).Milliseconds())
		}
	}
}

// pump is the single driver of the cluster's logical time: every round it
// delivers the due messages of each store and, every TickEvery rounds, ticks
// each store's peers. All stores advance in lockstep, so machine load slows the
// whole cluster down evenly instead of starving one store into election
// timeouts; leader changes then come from the fault script, not from the
// scheduler. A store whose gate is held by Stop/Start is skipped for the round.
func (c *Cluster) pump() {
	defer c.wg.Done()
	for step := int64(1); ; step++ {
		select {
		case <-c.stop:
			return
		default:
		}
		for _, n := range c.Nodes {
			if inflight := n.busy.Load(); inflight > 0 && (!c.async.Load() || inflight >= 8) {
				continue // asynchronous deliveries to this store are still running
			}
			if !n.gate.TryRLock() {
				continue
			}
			msgs := c.net.due(n.Idx)
			tick := step%int64(c.opt.TickEvery) == 0
			deliver := func(n *Node) {
				if !n.down {
					for _, m := range msgs {
						_ = n.st.Step(m)
					}
					if tick {
						_ = n.st.Router().BroadcastTick()
					}
				}
				n.gate.RUnlock()
			}
			if c.async.Load() {
				// stores run side by side and a store takes deliveries concurrently (as with the
				// real per-connection transport): a store that is busy applying does not hold
				// the others back, and further messages are stepped into its raft node while
				// its ready loop is still working
				if len(msgs) == 0 && !tick {
					n.gate.RUnlock()
					continue
				}
				n.busy.Add(1)
				go func(n *Node) {
					defer n.busy.Add(-1)
					deliver(n)
				}(n)
				continue
			}
			deliver(n)
		}
		time.Sleep(c.opt.StepSleep)
	}
}

func readOnly(req *pb.RaftCmdRequest) bool {
	if req == nil || len(req.GetRequests()) == 0 {
		return false
	}
	for _, r := range req.GetRequests() {
		switch r.GetCmdType() {
		case pb.CmdType_CMD_GET, pb.CmdType_CMD_SCAN:
		default:
			return false
		}
	}
	return true
}

// MarkerOf extracts the harness marker of a command: the value of the first
// PREWRITE mutation (harness write commands put their unique marker there).
func MarkerOf(req *pb.RaftCmdRequest) string {
	for _, r := range req.GetRequests() {
		if p := r.GetPrewrite(); p != nil {
			for _, m := range p.GetMutations() {
				if len(m.GetValue()) > 0 {
					return string(m.GetValue())
				}
			}
		}
	}
	return ""
}

func (c *Cluster) record(storeIdx, inc int, req *pb.RaftCmdRequest, resp *pb.RaftCmdResponse, err error) {
	rec := &AppliedRec{Store: storeIdx, Incarnation: inc, Region: req.GetHeader().GetRegionId(), Marker: MarkerOf(req),
		RequestID: req.GetHeader().GetRequestId(), PeerID: req.GetHeader().GetPeerId(), Resp: resp, Req: req, Clock: c.Now()}
	if err != nil {
		rec.Err = err.Error()
	}
	k := SeqKey{storeIdx, inc, rec.Region}
	c.recMu.Lock()
	rec.Pos = len(c.seqs[k])
	c.seqs[k] = append(c.seqs[k], rec)
	if resp != nil {
		c.byPtr[resp] = rec
	}
	obs := c.ApplyObserver
	c.recMu.Unlock()
	c.applied.Add(1)
	if obs != nil {
		obs(rec)
	}
}

// AppliedCount is the number of recorded applications so far.
func (c *Cluster) AppliedCount() int64 { return c.applied.Load() }

// AppliedOn is the number of write commands store idx has applied to region so far (all incarnations).
func (c *Cluster) AppliedOn(idx int, region uint64) int {
	c.recMu.Lock()
	defer c.recMu.Unlock()
	n := 0
	for k, v := range c.seqs {
		if k.Store == idx && k.Region == region {
			n += len(v)
		}
	}
	return n
}

// Sequences returns a snapshot of all applied sequences.
func (c *Cluster) Sequences() map[SeqKey][]*AppliedRec {
	c.recMu.Lock()
	defer c.recMu.Unlock()
	out := make(map[SeqKey][]*AppliedRec, len(c.seqs))
	for k, v := range c.seqs {
		out[k] = append([]*AppliedRec(nil), v...)
	}
	return out
}

// ByResponse returns the application that produced a response pointer.
func (c *Cluster) ByResponse(p *pb.RaftCmdResponse) *AppliedRec {
	c.recMu.Lock()
	defer c.recMu.Unlock()
	return c.byPtr[p]
}

// CallResult is what a client call against one store produced.
type CallResult struct {
	Resp        *pb.RaftCmdResponse
	Err         error
	Down        bool
	Incarnation int
}

// Propose calls Store.ProposeCommand on store idx.
func (c *Cluster) Propose(idx int, req *pb.RaftCmdRequest) CallResult {
	n := c.Nodes[idx]
	n.gate.RLock()
	defer n.gate.RUnlock()
	if n.down {
		return CallResult{Down: true}
	}
	resp, err := n.st.ProposeCommand(req)
	return CallResult{Resp: resp, Err: err, Incarnation: n.inc}
}

// Read calls Store.ReadCommand on store idx.
func (c *Cluster) Read(idx int, req *pb.RaftCmdRequest) CallResult {
	n := c.Nodes[idx]
	n.gate.RLock()
	defer n.gate.RUnlock()
	if n.down {
		return CallResult{Down: true}
	}
	resp, err := n.st.ReadCommand(req)
	return CallResult{Resp: resp, Err: err, Incarnation: n.inc}
}

// Status returns the raft status of a region's peer on a store.
func (c *Cluster) Status(idx int, region uint64) (myraft.Status, bool) {
	n := c.Nodes[idx]
	n.gate.RLock()
	defer n.gate.RUnlock()
	if n.down {
		return myraft.Status{}, false
	}
	p, ok := n.st.Peer(PeerID(region, idx))
	if !ok {
		return myraft.Status{}, false
	}
	return p.Status(), true
}

// Leader returns the store index whose peer claims leadership of the region
// with the highest term (harness-side observation, used for steering only).
func (c *Cluster) Leader(region uint64) (int, uint64, bool) {
	best, bestTerm, found := -1, uint64(0), false
	for i := range c.Nodes {
		st, ok := c.Status(i, region)
		if !ok || st.RaftState != myraft.StateLeader {
			continue
		}
		if !found || st.Term > bestTerm {
			best, bestTerm, found = i, st.Term, true
		}
	}
	return best, bestTerm, found
}

// TransferLeader asks the current leader of the region to hand over to store `to`.
func (c *Cluster) TransferLeader(region uint64, to int) error {
	from, _, ok := c.Leader(region)
	if !ok {
		return fmt.Errorf("no leader")
	}
	n := c.Nodes[from]
	n.gate.RLock()
	defer n.gate.RUnlock()
	if n.down {
		return fmt.Errorf("leader down")
	}
	p, ok := n.st.Peer(PeerID(region, from))
	if !ok {
		return fmt.Errorf("peer missing")
	}
	return p.TransferLeader(PeerID(region, to))
}

// Campaign makes a store's peer campaign for the region.
func (c *Cluster) Campaign(region uint64, idx int) error {
	n := c.Nodes[idx]
	n.gate.RLock()
	defer n.gate.RUnlock()
	if n.down {
		return fmt.Errorf("down")
	}
	p, ok := n.st.Peer(PeerID(region, idx))
	if !ok {
		return fmt.Errorf("peer missing")
	}
	return p.Campaign()
}

// Restart stops and restarts a store.
func (c *Cluster) Restart(idx int) error {
	if err := c.Stop(idx); err != nil {
		return err
	}
	return c.Start(idx)
}

// Isolate cuts every link of a store (both directions); any earlier partition
// is healed first, so a quorum of connected stores always exists.
func (c *Cluster) Isolate(idx int) { c.net.heal(); c.net.isolate(idx) }

// Cut cuts the directed link a -> b (healing any earlier partition first).
func (c *Cluster) Cut(a, b int) { c.net.heal(); c.net.cut(a, b, true) }

// Split proposes, at the region's current leader, a split of the region at splitKey into the
// region itself ([start, splitKey)) and a new region childID ([splitKey, end)) with one peer per
// store. The command travels through the parent's raft log like any write.
func (c *Cluster) Split(region, childID uint64, splitKey []byte) error {
	l, _, ok := c.Leader(region)
	if !ok {
		return errors.New("no leader")
	}
	n := c.Nodes[l]
	n.gate.RLock()
	defer n.gate.RUnlock()
	if n.down {
		return errors.New("leader store is down")
	}
	parent, ok := n.st.RegionMetaByID(region)
	if !ok {
		return fmt.Errorf("region %d unknown on store %d", region, l)
	}
	child := manifest.RegionMeta{ID: childID, StartKey: append([]byte(nil), splitKey...), EndKey: append([]byte(nil), parent.EndKey...),
		Epoch: manifest.RegionEpoch{Version: 1, ConfVersion: 1}}
	c.net.mu.Lock()
	for i := 0; i < c.opt.Stores; i++ {
		child.Peers = append(child.Peers, manifest.PeerMeta{StoreID: uint64(i + 1), PeerID: PeerID(childID, i)})
		c.net.peerStore[PeerID(childID, i)] = i
	}
	c.net.mu.Unlock()
	return n.st.ProposeSplit(region, child, splitKey)
}

// RegionEpoch is the epoch of the region in store idx's catalog.
func (c *Cluster) RegionEpoch(idx int, region uint64) (*pb.RegionEpoch, bool) {
	n := c.Nodes[idx]
	n.gate.RLock()
	defer n.gate.RUnlock()
	if n.down {
		return nil, false
	}
	m, ok := n.st.RegionMetaByID(region)
	if !ok {
		return nil, false
	}
	return &pb.RegionEpoch{Version: m.Epoch.Version, ConfVer: m.Epoch.ConfVersion}, true
}

// SetAsyncDelivery switches the pump between lock-step delivery (every store finishes its round
// before the next store is served) and side-by-side delivery (a store that is still busy with
// its round is skipped; the others go on).
func (c *Cluster) SetAsyncDelivery(v bool) { c.async.Store(v) }

// SetApplyDelay makes store idx sleep d before applying each write command.
func (c *Cluster) SetApplyDelay(idx int, d time.Duration) { c.Nodes[idx].applyDelay.Store(int64(d)) }

// Isolated reports whether every link of the store is currently cut.
func (c *Cluster) Isolated(idx int) bool { return c.net.isolated(idx) }

// Heal removes every partition.
func (c *Cluster) Heal() { c.net.heal() }

// SetFaults sets the per-message drop / duplicate probabilities and the
// maximum delay (pump steps; random delays reorder messages).
func (c *Cluster) SetFaults(drop, dup float64, maxDelay int) { c.net.setFaults(drop, dup, maxDelay) }

// NetStats returns message counters.
func (c *Cluster) NetStats() NetStats { return c.net.stats() }

// CaughtUp reports whether, for every region, exactly one up store leads, and
// every store is up with Applied == Commit == the leader's commit and the same
// last term.
func (c *Cluster) CaughtUp() bool {
	for _, r := range c.opt.Regions {
		leaders := 0
		var commit uint64
		var sts []myraft.Status
		for i := range c.Nodes {
			st, ok := c.Status(i, r.ID)
			if !ok {
				return false
			}
			sts = append(sts, st)
			if st.RaftState == myraft.StateLeader {
				leaders++
				commit = st.Commit
			}
		}
		if leaders != 1 {
			return false
		}
		for _, st := range sts {
			if st.Commit != commit || st.Applied != commit || st.Term != sts[0].Term {
				return false
			}
		}
	}
	return true
}

// WaitCaughtUp polls CaughtUp (twice in a row, with traffic stopped) until the
// watchdog expires. The result only selects between "compare for equality" and
// "inconclusive"; it never decides a violation.
func (c *Cluster) WaitCaughtUp(watchdog time.Duration) bool {
	deadline := time.Now().Add(watchdog)
	streak := 0
	var last int64 = -1
	for time.Now().Before(deadline) {
		if c.CaughtUp() {
			cur := c.AppliedCount()
			if cur == last {
				streak++
			} else {
				streak = 1
			}
			last = cur
			if streak >= 3 {
				return true
			}
		} else {
			streak = 0
		}
		time.Sleep(5 * time.Millisecond)
	}
	return false
}

// ---- network ----

// NetStats counts message fates.
type NetStats struct {
	Sent, Delivered, DroppedRandom, DroppedPartition, DroppedDown, Duplicated, Delayed, Reordered int64
}

type qmsg struct {
	due int64
	seq int64
	msg myraft.Message
}

type mheap []qmsg

func (h mheap) Len() int { return len(h) }
func (h mheap) Less(i, j int) bool {
	if h[i].due != h[j].due {
		return h[i].due < h[j].due
	}
	return h[i].seq < h[j].seq
}
func (h mheap) Swap(i, j int) { h[i], h[j] = h[j], h[i] }
func (h *mheap) Push(x any)   { *h = append(*h, x.(qmsg)) }
func (h *mheap) Pop() any {
	old := *h
	n := len(old)
	x := old[n-1]
	*h = old[:n-1]
	return x
}

// Net is the hostile in-memory network.
type Net struct {
	mu        sync.Mutex
	rng       *rand.Rand
	n         int
	peerStore map[uint64]int
	queues    []mheap
	step      []int64
	lastSeq   []int64 // highest seq delivered per destination (reorder observation)
	cuts      [][]bool
	down      []bool
	drop, dup float64
	maxDelay  int
	seq       int64
	st        NetStats
}

func newNet(n int, rng *rand.Rand) *Net {
	nt := &Net{rng: rng, n: n, peerStore: map[uint64]int{}, queues: make([]mheap, n), step: make([]int64, n), lastSeq: make([]int64, n), down: make([]bool, n)}
	for i := 0; i < n; i++ {
		nt.cuts = append(nt.cuts, make([]bool, n))
	}
	return nt
}

func (nt *Net) send(from int, msg myraft.Message) {
	nt.mu.Lock()
	defer nt.mu.Unlock()
	nt.st.Sent++
	to, ok := nt.peerStore[msg.To]
	if !ok {
		return
	}
	if nt.down[to] || nt.down[from] {
		nt.st.DroppedDown++
		return
	}
	if nt.cuts[from][to] {
		nt.st.DroppedPartition++
		return
	}
	if nt.drop > 0 && nt.rng.Float64() < nt.drop {
		nt.st.DroppedRandom++
		return
	}
	copies := 1
	if nt.dup > 0 && nt.rng.Float64() < nt.dup {
		copies = 2
		nt.st.Duplicated++
	}
	for i := 0; i < copies; i++ {
		d := 0
		if nt.maxDelay > 0 {
			d = nt.rng.Intn(nt.maxDelay + 1)
		}
		if d > 0 {
			nt.st.Delayed++
		}
		nt.seq++
		heap.Push(&nt.queues[to], qmsg{due: nt.step[to] + 1 + int64(d), seq: nt.seq, msg: msg})
	}
}

// due advances the destination's step counter and pops the messages due.
func (nt *Net) due(to int) []myraft.Message {
	nt.mu.Lock()
	defer nt.mu.Unlock()
	nt.step[to]++
	var out []myraft.Message
	q := &nt.queues[to]
	for q.Len() > 0 && (*q)[0].due <= nt.step[to] {
		m := heap.Pop(q).(qmsg)
		from, ok := nt.peerStore[m.msg.From]
		if nt.down[to] {
			nt.st.DroppedDown++
			continue
		}
		if ok && nt.cuts[from][to] {
			nt.st.DroppedPartition++
			continue
		}
		if m.seq < nt.lastSeq[to] {
			nt.st.Reordered++
		} else {
			nt.lastSeq[to] = m.seq
		}
		nt.st.Delivered++
		out = append(out, m.msg)
	}
	return out
}

func (nt *Net) setDown(i int, v bool) {
	nt.mu.Lock()
	nt.down[i] = v
	if v {
		nt.queues[i] = nil
	}
	nt.mu.Unlock()
}

func (nt *Net) isolate(i int) {
	nt.mu.Lock()
	for j := 0; j < nt.n; j++ {
		if j != i {
			nt.cuts[i][j] = true
			nt.cuts[j][i] = true
		}
	}
	nt.mu.Unlock()
}

func (nt *Net) isolated(i int) bool {
	nt.mu.Lock()
	defer nt.mu.Unlock()
	for j := 0; j < nt.n; j++ {
		if j != i && !(nt.cuts[i][j] && nt.cuts[j][i]) {
			return false
		}
	}
	return true
}

func (nt *Net) cut(a, b int, v bool) {
	nt.mu.Lock()
	nt.cuts[a][b] = v
	nt.mu.Unlock()
}

func (nt *Net) heal() {
	nt.mu.Lock()
	for i := range nt.cuts {
		for j := range nt.cuts[i] {
			nt.cuts[i][j] = false
		}
	}
	nt.mu.Unlock()
}

func (nt *Net) setFaults(drop, dup float64, maxDelay int) {
	nt.mu.Lock()
	nt.drop, nt.dup, nt.maxDelay = drop, dup, maxDelay
	nt.mu.Unlock()
}

func (nt *Net) stats() NetStats {
	nt.mu.Lock()
	defer nt.mu.Unlock()
	return nt.st
}

// SendCommandRaw hands a command straight to the region's peer on a store via
// Router.SendCommand, i.e. the step Store.ProposeCommand performs after its
// leadership check passed. Used only by reproduction scripts to show what
// happens when leadership is lost between that check and the hand-over.
func (c *Cluster) SendCommandRaw(idx int, region uint64, req *pb.RaftCmdRequest) error {
	n := c.Nodes[idx]
	n.gate.RLock()
	defer n.gate.RUnlock()
	if n.down {
		return fmt.Errorf("down")
	}
	return n.st.Router().SendCommand(PeerID(region, idx), req)
}
