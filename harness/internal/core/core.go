// Package core is the shared runner of the NoKV runtime-monitoring harness.
//
// A check is a deterministic list of cases (derived from VERIF_SEED and the
// tier). The parent process shards the cases over child processes of the same
// binary; every child logs "start" before a case and "end" with the case's
// observations after it, so that a process death (panic in a background
// goroutine of the engine, fatal runtime error) is attributed to the case that
// was running. The parent aggregates observations into the evidence file,
// matches violations against known_findings.json and decides the exit code.
package core

import (
	"bufio"
	"crypto/sha256"
	"encoding/hex"
	"encoding/json"
	"fmt"
	"math/rand"
	"os"
	"os/exec"
	"path/filepath"
	"runtime/debug"
	"sort"
	"strconv"
	"strings"
	"sync"
	"time"
)

// VerifRoot is the directory holding MANIFEST.json, evidence/, replays/.
var VerifRoot = func() string {
	if v := os.Getenv("VERIF_ROOT"); v != "" {
		return v
	}
	return "/verif"
}()

// Check describes one property check.
type Check struct {
	ID          string
	Level       string // "exploration" | "fault_enumeration"
	Rule        string
	Assumptions []string
	Exhaustive  bool
	// Cases returns the number of cases for a tier ("quick"/"thorough").
	Cases func(tier string) int
	// Run executes one case.
	Run func(c *Case)
	// Finish may inspect the aggregate (floors, derived verdicts).
	Finish func(a *Agg)
	// Procs overrides the number of child processes (default min(16,cases)).
	Procs func(tier string) int
	// CaseTimeout is the per-case watchdog (default 10 min). Firing is
	// inconclusive, never a violation.
	CaseTimeout time.Duration
	// CrashIsViolation: a child death while running a case is reported as a
	// violation with signature "<ID>|process-death|<first panic line class>".
	CrashIsViolation bool
	// RaceFiles: race-detector reports whose both stacks touch one of these
	// file suffixes are violations of this property (C07, C20, C32).
	RaceFiles []string
	// Parallel is the number of cases a child runs concurrently (default 1).
	Parallel int
	// Race: children run from the -race build (bin/vcheck-race).
	Race bool
	// NeedsBins: the check drives the real binaries (bin/nokv, bin/nokv-redis, bin/nokv-config).
	NeedsBins bool
}

var registry = map[string]*Check{}

// Register adds a check.
func Register(c *Check) {
	if _, dup := registry[c.ID]; dup {
		panic("duplicate check " + c.ID)
	}
	registry[c.ID] = c
}

// Lookup returns a registered check.
func Lookup(id string) *Check { return registry[id] }

// IDs lists registered checks.
func IDs() []string {
	var out []string
	for id := range registry {
		out = append(out, id)
	}
	sort.Strings(out)
	return out
}

// Violation is one oracle rejection.
type Violation struct {
	Signature string `json:"signature"`
	What      string `json:"what"`
	Detail    any    `json:"detail,omitempty"`
	Case      int    `json:"case"`
}

// Case is the context handed to Check.Run.
type Case struct {
	Check *Check
	Idx   int
	Seed  int64
	Tier  string
	Rng   *rand.Rand
	// Replay is true when re-running a case from a replay file.
	Replay bool

	scratch  string
	dirs     []string
	keepDirs bool

	mu           sync.Mutex
	counts       map[string]int64
	nontrivial   map[string]struct{}
	samples      []any
	violations   []Violation
	inconclusive []string
	maxes        map[string]int64
	sets         map[string]map[string]struct{}
}

// CaseSeed derives the per-case PRNG seed.
func CaseSeed(seed int64, id string, idx int) int64 {
	h := sha256.Sum256([]byte(fmt.Sprintf("%d|%s|%d", seed, id, idx)))
	var v int64
	for i := 0; i < 8; i++ {
		v = v<<8 | int64(h[i])
	}
	if v < 0 {
		v = -v
	}
	return v
}

func newCase(ch *Check, idx int, seed int64, tier, scratch string) *Case {
	return &Case{Check: ch, Idx: idx, Seed: seed, Tier: tier, scratch: scratch,
		Rng:    rand.New(rand.NewSource(CaseSeed(seed, ch.ID, idx))),
		counts: map[string]int64{}, nontrivial: map[string]struct{}{}, maxes: map[string]int64{}, sets: map[string]map[string]struct{}{}}
}

// Thorough reports whether the tier is "thorough".
func (c *Case) Thorough() bool { return c.Tier == "thorough" }

// TempDir creates a scratch directory removed after the case.
func (c *Case) TempDir() string {
	c.mu.Lock()
	defer c.mu.Unlock()
	d := filepath.Join(c.scratch, fmt.Sprintf("c%d-%d", c.Idx, len(c.dirs)))
	_ = os.RemoveAll(d)
	if err := os.MkdirAll(d, 0o755); err != nil {
		panic(err)
	}
	c.dirs = append(c.dirs, d)
	return d
}

// Count adds n to a named observation counter.
func (c *Case) Count(name string, n int) {
	c.mu.Lock()
	c.counts[name] += int64(n)
	c.mu.Unlock()
}

// Max records the maximum of a named observation.
func (c *Case) Max(name string, v int) {
	c.mu.Lock()
	if int64(v) > c.maxes[name] {
		c.maxes[name] = int64(v)
	}
	c.mu.Unlock()
}

// Distinct records a member of a named set; the aggregate reports set sizes
// ("distinct.<name>") and, for small sets, the members.
func (c *Case) Distinct(name, member string) {
	c.mu.Lock()
	m := c.sets[name]
	if m == nil {
		m = map[string]struct{}{}
		c.sets[name] = m
	}
	if len(m) < 4096 {
		m[member] = struct{}{}
	}
	c.mu.Unlock()
}

// Nontrivial marks this case (or a sub-case) as non-trivial with a fingerprint;
// distinct_nontrivial is the number of distinct fingerprints over the run.
func (c *Case) Nontrivial(fingerprint string) {
	h := sha256.Sum256([]byte(fingerprint))
	c.mu.Lock()
	if len(c.nontrivial) < 100000 {
		c.nontrivial[hex.EncodeToString(h[:8])] = struct{}{}
	}
	c.mu.Unlock()
}

// Sample offers a sample case description for the evidence file.
func (c *Case) Sample(v any) {
	c.mu.Lock()
	if len(c.samples) < 2 {
		c.samples = append(c.samples, v)
	}
	c.mu.Unlock()
}

// Violation reports an oracle rejection.
func (c *Case) Violation(signature, what string, detail any) {
	c.mu.Lock()
	if len(c.violations) < 20 {
		c.violations = append(c.violations, Violation{Signature: signature, What: what, Detail: detail, Case: c.Idx})
	}
	c.mu.Unlock()
}

// Violated reports whether the case already has a violation.
func (c *Case) Violated() bool {
	c.mu.Lock()
	defer c.mu.Unlock()
	return len(c.violations) > 0
}

// Inconclusive records that (part of) the case could not be decided.
func (c *Case) Inconclusive(why string) {
	c.mu.Lock()
	if len(c.inconclusive) < 20 {
		c.inconclusive = append(c.inconclusive, why)
	}
	c.mu.Unlock()
}

// KeepDirs makes the case leave its scratch directories in place (the parent
// removes the whole scratch tree at the end). Used when engine goroutines may
// still be running when the case returns.
func (c *Case) KeepDirs() {
	c.mu.Lock()
	c.keepDirs = true
	c.mu.Unlock()
}

func (c *Case) cleanup() {
	if c.keepDirs {
		return
	}
	for _, d := range c.dirs {
		_ = os.RemoveAll(d)
	}
}

type caseEvent struct {
	T            string              `json:"t"`
	Case         int                 `json:"case"`
	Counts       map[string]int64    `json:"counts,omitempty"`
	Maxes        map[string]int64    `json:"maxes,omitempty"`
	Sets         map[string][]string `json:"sets,omitempty"`
	Nontrivial   []string            `json:"nontrivial,omitempty"`
	Samples      []any               `json:"samples,omitempty"`
	Violations   []Violation         `json:"violations,omitempty"`
	Inconclusive []string            `json:"inconclusive,omitempty"`
	Panic        string              `json:"panic,omitempty"`
	WallMs       int64               `json:"wall_ms,omitempty"`
}

func (c *Case) endEvent() caseEvent {
	ev := caseEvent{T: "end", Case: c.Idx, Counts: c.counts, Maxes: c.maxes, Samples: c.samples, Violations: c.violations, Inconclusive: c.inconclusive}
	for k := range c.nontrivial {
		ev.Nontrivial = append(ev.Nontrivial, k)
	}
	if len(c.sets) > 0 {
		ev.Sets = map[string][]string{}
		for name, m := range c.sets {
			for k := range m {
				ev.Sets[name] = append(ev.Sets[name], k)
			}
		}
	}
	return ev
}

// runCaseGuarded runs one case with panic recovery (for panics on the calling
// goroutine) and the watchdog.
func runCaseGuarded(ch *Check, c *Case) (ev caseEvent) {
	start := time.Now()
	done := make(chan struct{})
	var pan string
	go func() {
		defer close(done)
		defer func() {
			if r := recover(); r != nil {
				pan = fmt.Sprintf("%v\n%s", r, debug.Stack())
			}
		}()
		ch.Run(c)
	}()
	timeout := ch.CaseTimeout
	if timeout <= 0 {
		timeout = 10 * time.Minute
	}
	select {
	case <-done:
	case <-time.After(timeout):
		c.Inconclusive(fmt.Sprintf("case watchdog fired after %s", timeout))
		c.mu.Lock()
		ev = c.endEvent()
		c.mu.Unlock()
		ev.WallMs = time.Since(start).Milliseconds()
		return ev
	}
	c.mu.Lock()
	ev = c.endEvent()
	c.mu.Unlock()
	ev.Panic = pan
	ev.WallMs = time.Since(start).Milliseconds()
	c.cleanup()
	return ev
}

// ChildMain runs a shard of cases and streams events to the given file.
func ChildMain(id, tier string, seed int64, shard, nshards int, scratch, outPath string) int {
	ch := Lookup(id)
	if ch == nil {
		fmt.Fprintln(os.Stderr, "unknown check", id)
		return 2
	}
	f, err := os.OpenFile(outPath, os.O_CREATE|os.O_WRONLY|os.O_APPEND, 0o644)
	if err != nil {
		fmt.Fprintln(os.Stderr, err)
		return 2
	}
	defer f.Close()
	var wmu sync.Mutex
	emit := func(ev caseEvent) {
		b, _ := json.Marshal(ev)
		wmu.Lock()
		_, _ = f.Write(append(b, '\n'))
		wmu.Unlock()
	}
	n := ch.Cases(tier)
	par := ch.Parallel
	if par <= 0 {
		par = 1
	}
	sem := make(chan struct{}, par)
	var wg sync.WaitGroup
	for i := shard; i < n; i += nshards {
		sem <- struct{}{}
		wg.Add(1)
		go func(i int) {
			defer wg.Done()
			defer func() { <-sem }()
			emit(caseEvent{T: "start", Case: i})
			c := newCase(ch, i, seed, tier, scratch)
			emit(runCaseGuarded(ch, c))
		}(i)
	}
	wg.Wait()
	return 0
}

// Agg is the parent's aggregate over all cases.
type Agg struct {
	Check        *Check
	Tier         string
	Seed         int64
	Counts       map[string]int64
	Maxes        map[string]int64
	Sets         map[string]map[string]struct{}
	Nontrivial   map[string]struct{}
	Samples      []any
	Violations   []Violation
	Inconclusive []string
	CasesEnded   int
	CasesStarted int
	Extra        map[string]any
	floorsFailed []string
}

// Floor requires a measured counter to reach a minimum; an unmet floor makes
// the run inconclusive (exit 2), never "held".
func (a *Agg) Floor(name string, min int64) {
	got := a.Counts[name]
	if v, ok := a.Maxes[name]; ok && v > got {
		got = v
	}
	if s, ok := a.Sets[name]; ok && int64(len(s)) > got {
		got = int64(len(s))
	}
	if got < min {
		a.floorsFailed = append(a.floorsFailed, fmt.Sprintf("%s=%d<%d", name, got, min))
	}
}

// FloorNontrivial requires a minimum number of distinct non-trivial cases.
func (a *Agg) FloorNontrivial(min int) {
	if len(a.Nontrivial) < min {
		a.floorsFailed = append(a.floorsFailed, fmt.Sprintf("distinct_nontrivial=%d<%d", len(a.Nontrivial), min))
	}
}

// Violation lets Finish add an aggregate-level violation.
func (a *Agg) Violation(sig, what string, detail any) {
	a.Violations = append(a.Violations, Violation{Signature: sig, What: what, Detail: detail, Case: -1})
}

type knownFindings struct {
	Findings []struct {
		Property  string `json:"property"`
		Signature string `json:"signature"`
		What      string `json:"what"`
		Witness   string `json:"witness,omitempty"`
	} `json:"findings"`
	Fixed []string `json:"fixed"`
}

func loadKnown() knownFindings {
	var k knownFindings
	b, err := os.ReadFile(filepath.Join(VerifRoot, "known_findings.json"))
	if err == nil {
		_ = json.Unmarshal(b, &k)
	}
	return k
}

func panicClass(stderrTail string) string {
	for _, line := range strings.Split(stderrTail, "\n") {
		l := strings.TrimSpace(line)
		if strings.HasPrefix(l, "panic:") || strings.HasPrefix(l, "fatal error:") {
			l = strings.Map(func(r rune) rune {
				if r >= '0' && r <= '9' {
					return -1
				}
				return r
			}, l)
			if len(l) > 80 {
				l = l[:80]
			}
			return l
		}
	}
	return "unknown"
}

func tailFile(path string, max int) string {
	b, err := os.ReadFile(path)
	if err != nil {
		return ""
	}
	if len(b) > max {
		// keep the head (panic message) and some tail
		return string(b[:max/2]) + "\n...\n" + string(b[len(b)-max/2:])
	}
	return string(b)
}

// ParentMain runs a whole check and returns the process exit code.
func ParentMain(id, tier string, seed int64, childBin string) int {
	ch := Lookup(id)
	if ch == nil {
		fmt.Fprintln(os.Stderr, "unknown check", id)
		return 2
	}
	start := time.Now()
	scratch, err := os.MkdirTemp("", "verif-"+id+"-")
	if err != nil {
		fmt.Fprintln(os.Stderr, err)
		return 2
	}
	defer os.RemoveAll(scratch)
	n := ch.Cases(tier)
	procs := 16
	if ch.Procs != nil {
		procs = ch.Procs(tier)
	}
	if procs > n {
		procs = n
	}
	if procs < 1 {
		procs = 1
	}
	agg := &Agg{Check: ch, Tier: tier, Seed: seed, Counts: map[string]int64{}, Maxes: map[string]int64{}, Sets: map[string]map[string]struct{}{}, Nontrivial: map[string]struct{}{}, Extra: map[string]any{}}
	type childRes struct {
		shard   int
		err     error
		outPath string
		errPath string
	}
	results := make(chan childRes, procs)
	for s := 0; s < procs; s++ {
		go func(s int) {
			outPath := filepath.Join(scratch, fmt.Sprintf("events-%d.jsonl", s))
			errPath := filepath.Join(scratch, fmt.Sprintf("stderr-%d.log", s))
			ef, _ := os.Create(errPath)
			cmd := exec.Command(childBin, "child", id, tier, strconv.FormatInt(seed, 10), strconv.Itoa(s), strconv.Itoa(procs), scratch, outPath)
			cmd.Stdout = ef
			cmd.Stderr = ef
			cmd.Env = append(os.Environ(), "GORACE=halt_on_error=0 exitcode=0 log_path="+filepath.Join(scratch, fmt.Sprintf("race-%d", s)), "GOTRACEBACK=all")
			err := cmd.Run()
			ef.Close()
			results <- childRes{s, err, outPath, errPath}
		}(s)
	}
	crashed := 0
	var slow [][2]int64
	for i := 0; i < procs; i++ {
		r := <-results
		started := map[int]bool{}
		f, ferr := os.Open(r.outPath)
		if ferr == nil {
			sc := bufio.NewScanner(f)
			sc.Buffer(make([]byte, 1<<20), 256<<20)
			for sc.Scan() {
				var ev caseEvent
				if json.Unmarshal(sc.Bytes(), &ev) != nil {
					continue
				}
				switch ev.T {
				case "start":
					started[ev.Case] = true
					agg.CasesStarted++
				case "end":
					delete(started, ev.Case)
					agg.CasesEnded++
					slow = append(slow, [2]int64{ev.WallMs, int64(ev.Case)})
					for k, v := range ev.Counts {
						agg.Counts[k] += v
					}
					for k, v := range ev.Maxes {
						if v > agg.Maxes[k] {
							agg.Maxes[k] = v
						}
					}
					for name, ms := range ev.Sets {
						m := agg.Sets[name]
						if m == nil {
							m = map[string]struct{}{}
							agg.Sets[name] = m
						}
						for _, k := range ms {
							m[k] = struct{}{}
						}
					}
					for _, k := range ev.Nontrivial {
						agg.Nontrivial[k] = struct{}{}
					}
					if len(agg.Samples) < 4 {
						for _, s := range ev.Samples {
							if len(agg.Samples) < 4 {
								agg.Samples = append(agg.Samples, s)
							}
						}
					}
					agg.Violations = append(agg.Violations, ev.Violations...)
					for _, w := range ev.Inconclusive {
						agg.Inconclusive = append(agg.Inconclusive, fmt.Sprintf("case %d: %s", ev.Case, w))
					}
					if ev.Panic != "" {
						first := strings.SplitN(ev.Panic, "\n", 2)[0]
						if ch.CrashIsViolation {
							agg.Violations = append(agg.Violations, Violation{Signature: ch.ID + "|panic|" + panicClass("panic: "+first), What: "panic while running case: " + first, Detail: ev.Panic, Case: ev.Case})
						} else {
							agg.Inconclusive = append(agg.Inconclusive, fmt.Sprintf("case %d: harness/engine panic: %s", ev.Case, first))
						}
					}
				}
			}
			f.Close()
		}
		if r.err != nil || len(started) > 0 {
			crashed++
			tail := tailFile(r.errPath, 16000)
			var cases []int
			for c := range started {
				cases = append(cases, c)
			}
			sort.Ints(cases)
			what := fmt.Sprintf("child %d died (%v) while running case(s) %v", r.shard, r.err, cases)
			if ch.CrashIsViolation && len(cases) > 0 {
				agg.Violations = append(agg.Violations, Violation{Signature: ch.ID + "|process-death|" + panicClass(tail), What: what, Detail: tail, Case: cases[0]})
			} else {
				agg.Inconclusive = append(agg.Inconclusive, what+": "+panicClass(tail))
				fmt.Fprintf(os.Stderr, "---- child %d stderr ----\n%s\n", r.shard, tail)
			}
		}
	}
	sort.Slice(slow, func(i, j int) bool { return slow[i][0] > slow[j][0] })
	if len(slow) > 5 {
		slow = slow[:5]
	}
	agg.Extra["slowest_cases_ms_idx"] = slow
	agg.Extra["child_processes"] = procs
	agg.Extra["children_died"] = crashed
	races := collectRaces(scratch, ch)
	if races != nil {
		agg.Extra["race_reports_total"] = races.Total
		agg.Extra["race_reports_distinct"] = len(races.Distinct)
		var keys []string
		for k := range races.Distinct {
			keys = append(keys, k)
		}
		sort.Strings(keys)
		if len(keys) > 10 {
			keys = keys[:10]
		}
		agg.Extra["race_report_keys"] = keys
		for k, rep := range races.InAnchor {
			agg.Violations = append(agg.Violations, Violation{Signature: ch.ID + "|data-race|" + k, What: "race detector report inside the property's anchor files", Detail: rep, Case: -1})
		}
	}
	if ch.Finish != nil {
		ch.Finish(agg)
	}
	return finish(agg, n, start)
}

func finish(agg *Agg, planned int, start time.Time) int {
	ch := agg.Check
	known := loadKnown()
	isKnown := func(sig string) (string, bool) {
		for _, f := range known.Findings {
			if f.Property == ch.ID && f.Signature == sig {
				return f.What, true
			}
		}
		return "", false
	}
	printedKnown := map[string]bool{}
	var unknown, firstKnown []Violation
	knownHits := map[string]int{}
	for _, v := range agg.Violations {
		if what, ok := isKnown(v.Signature); ok {
			knownHits[v.Signature]++
			if !printedKnown[v.Signature] {
				printedKnown[v.Signature] = true
				fmt.Printf("KNOWN-FINDING: property=%s %s [signature %s]\n", ch.ID, what, v.Signature)
				firstKnown = append(firstKnown, v)
			}
			continue
		}
		unknown = append(unknown, v)
	}
	_ = os.MkdirAll(filepath.Join(VerifRoot, "replays"), 0o755)
	if old, _ := filepath.Glob(filepath.Join(VerifRoot, "replays", ch.ID+"-seed*")); len(old) > 0 {
		for _, f := range old {
			_ = os.Remove(f)
		}
	}
	_ = os.MkdirAll(filepath.Join(VerifRoot, "evidence"), 0o755)
	// the first observation of every recorded finding is kept as a replay file too
	for i, v := range firstKnown {
		name := fmt.Sprintf("%s-seed%d-case%d-known%d.json", ch.ID, agg.Seed, v.Case, i+1)
		b, _ := json.MarshalIndent(map[string]any{"property": ch.ID, "seed": agg.Seed, "tier": agg.Tier, "case": v.Case, "signature": v.Signature, "what": v.What, "detail": v.Detail, "known_finding": true}, "", " ")
		_ = os.WriteFile(filepath.Join(VerifRoot, "replays", name), b, 0o644)
	}
	seenSig := map[string]int{}
	replayN := 0
	for _, v := range unknown {
		seenSig[v.Signature]++
		if seenSig[v.Signature] > 3 {
			continue
		}
		replayN++
		name := fmt.Sprintf("%s-seed%d-case%d-%d.json", ch.ID, agg.Seed, v.Case, replayN)
		path := filepath.Join(VerifRoot, "replays", name)
		b, _ := json.MarshalIndent(map[string]any{"property": ch.ID, "seed": agg.Seed, "tier": agg.Tier, "case": v.Case, "signature": v.Signature, "what": v.What, "detail": v.Detail}, "", " ")
		_ = os.WriteFile(path, b, 0o644)
		fmt.Printf("VIOLATION property=%s replay=%s\n", ch.ID, path)
		fmt.Printf("  signature: %s\n  what: %s\n", v.Signature, v.What)
	}
	cov := map[string]any{}
	evals := int64(agg.CasesEnded)
	if v, ok := agg.Counts["evaluations"]; ok && v > evals {
		evals = v
	}
	cov["evaluations"] = evals
	cov["distinct_nontrivial"] = len(agg.Nontrivial)
	cov["rule"] = ch.Rule
	samples := agg.Samples
	if samples == nil {
		samples = []any{}
	}
	cov["samples"] = samples
	cov["cases_planned"] = planned
	cov["cases_completed"] = agg.CasesEnded
	if ch.Exhaustive {
		cov["exhaustive"] = agg.CasesEnded == planned
	}
	obs := map[string]any{}
	for k, v := range agg.Counts {
		obs[k] = v
	}
	for k, v := range agg.Maxes {
		obs["max."+k] = v
	}
	for name, m := range agg.Sets {
		obs["distinct."+name] = len(m)
		if len(m) <= 40 {
			var ms []string
			for k := range m {
				ms = append(ms, k)
			}
			sort.Strings(ms)
			obs["members."+name] = ms
		}
	}
	cov["observed"] = obs
	cov["inconclusive_cases"] = len(agg.Inconclusive)
	if len(agg.Inconclusive) > 0 {
		inc := agg.Inconclusive
		if len(inc) > 10 {
			inc = inc[:10]
		}
		cov["inconclusive_reasons"] = inc
	}
	if len(knownHits) > 0 {
		cov["known_finding_hits"] = knownHits
	}
	if len(agg.floorsFailed) > 0 {
		cov["floors_unmet"] = agg.floorsFailed
	}
	for k, v := range agg.Extra {
		cov[k] = v
	}
	tier := agg.Tier
	if tier != "quick" && tier != "thorough" {
		tier = "quick"
	}
	ev := map[string]any{
		"property_id": ch.ID, "tier": tier, "seed": agg.Seed, "level": ch.Level,
		"coverage": cov, "assumptions": ch.Assumptions,
		"wall_s": time.Since(start).Seconds(), "violations": len(unknown),
	}
	if ev["assumptions"] == nil {
		ev["assumptions"] = []string{}
	}
	b, _ := json.MarshalIndent(ev, "", " ")
	_ = os.WriteFile(filepath.Join(VerifRoot, "evidence", ch.ID+".json"), b, 0o644)

	fmt.Printf("%s %s seed=%d: cases=%d/%d distinct_nontrivial=%d violations=%d known=%d inconclusive=%d wall=%.1fs\n",
		ch.ID, agg.Tier, agg.Seed, agg.CasesEnded, planned, len(agg.Nontrivial), len(unknown), len(knownHits), len(agg.Inconclusive), time.Since(start).Seconds())
	if len(unknown) > 0 {
		return 1
	}
	if len(agg.floorsFailed) > 0 {
		fmt.Printf("INCONCLUSIVE property=%s coverage floors unmet: %v\n", ch.ID, agg.floorsFailed)
		return 2
	}
	if agg.CasesEnded < planned {
		fmt.Printf("INCONCLUSIVE property=%s only %d of %d cases completed: %v\n", ch.ID, agg.CasesEnded, planned, agg.Inconclusive)
		return 2
	}
	return 0
}

// ReplayMain re-runs the case recorded in a replay file in-process.
func ReplayMain(path string) int {
	b, err := os.ReadFile(path)
	if err != nil {
		fmt.Fprintln(os.Stderr, err)
		return 2
	}
	var r struct {
		Property string `json:"property"`
		Seed     int64  `json:"seed"`
		Tier     string `json:"tier"`
		Case     int    `json:"case"`
	}
	if err := json.Unmarshal(b, &r); err != nil {
		fmt.Fprintln(os.Stderr, err)
		return 2
	}
	ch := Lookup(r.Property)
	if ch == nil || r.Case < 0 {
		fmt.Fprintln(os.Stderr, "replay: unknown check or aggregate-level violation")
		return 2
	}
	scratch, _ := os.MkdirTemp("", "verif-replay-")
	defer os.RemoveAll(scratch)
	c := newCase(ch, r.Case, r.Seed, r.Tier, scratch)
	c.Replay = true
	ev := runCaseGuarded(ch, c)
	out, _ := json.MarshalIndent(ev, "", " ")
	fmt.Println(string(out))
	if len(ev.Violations) > 0 || ev.Panic != "" {
		for _, v := range ev.Violations {
			fmt.Printf("VIOLATION property=%s replay=%s\n  signature: %s\n", r.Property, path, v.Signature)
		}
		return 1
	}
	return 0
}

var workers = map[string]func(args []string) int{}

// RegisterWorker registers a helper-process entry point ("vcheck worker <name> ...").
func RegisterWorker(name string, fn func(args []string) int) { workers[name] = fn }

// LookupWorker returns a helper-process entry point.
func LookupWorker(name string) func(args []string) int { return workers[name] }

// SelfExe returns the path of the running binary (for spawning workers).
func SelfExe() string {
	p, err := os.Executable()
	if err != nil {
		return os.Args[0]
	}
	return p
}
