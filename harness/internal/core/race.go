package core

import (
	"os"
	"path/filepath"
	"regexp"
	"strings"
)

// raceSummary is the de-duplicated view of the race detector's log files.
type raceSummary struct {
	Total    int
	Distinct map[string]string // key -> first report text
	InAnchor map[string]string // subset whose two access stacks both touch anchor files
}

var lineNo = regexp.MustCompile(`:\d+( \+0x[0-9a-f]+)?$`)

// collectRaces parses GORACE log files "race-<shard>.<pid>" under dir.
func collectRaces(dir string, ch *Check) *raceSummary {
	files, _ := filepath.Glob(filepath.Join(dir, "race-*"))
	if len(files) == 0 {
		return nil
	}
	sum := &raceSummary{Distinct: map[string]string{}, InAnchor: map[string]string{}}
	for _, f := range files {
		b, err := os.ReadFile(f)
		if err != nil {
			continue
		}
		blocks := strings.Split(string(b), "WARNING: DATA RACE")
		for _, blk := range blocks[1:] {
			if i := strings.Index(blk, "=================="); i >= 0 {
				blk = blk[:i]
			}
			sum.Total++
			// The first two stacks are the two conflicting accesses; later
			// sections ("Goroutine N created at:") are creation stacks.
			sections := splitSections(blk)
			var access [][]frame
			for _, s := range sections {
				if strings.HasPrefix(s.title, "Goroutine ") {
					continue
				}
				access = append(access, s.frames)
				if len(access) == 2 {
					break
				}
			}
			key := ""
			anchored := len(access) == 2 && len(ch.RaceFiles) > 0
			for _, st := range access {
				var fn []string
				hit := false
				for _, fr := range st {
					fn = append(fn, fr.fn)
					for _, suf := range ch.RaceFiles {
						if strings.HasSuffix(fr.file, suf) {
							hit = true
						}
					}
				}
				if !hit {
					anchored = false
				}
				key += strings.Join(fn, "<") + " || "
			}
			if _, ok := sum.Distinct[key]; !ok {
				txt := blk
				if len(txt) > 6000 {
					txt = txt[:6000]
				}
				sum.Distinct[key] = txt
				if anchored {
					sum.InAnchor[shortKey(access)] = txt
				}
			}
		}
	}
	return sum
}

type frame struct{ fn, file string }

type section struct {
	title  string
	frames []frame
}

func splitSections(blk string) []section {
	var out []section
	var cur *section
	lines := strings.Split(blk, "\n")
	for i := 0; i < len(lines); i++ {
		l := lines[i]
		if l == "" {
			continue
		}
		if !strings.HasPrefix(l, " ") {
			out = append(out, section{title: strings.TrimSpace(l)})
			cur = &out[len(out)-1]
			continue
		}
		if cur == nil {
			continue
		}
		if strings.HasPrefix(l, "  ") && !strings.HasPrefix(l, "      ") {
			fn := strings.TrimSpace(l)
			if j := strings.Index(fn, "("); j > 0 {
				fn = fn[:j]
			}
			file := ""
			if i+1 < len(lines) && strings.HasPrefix(lines[i+1], "      ") {
				file = lineNo.ReplaceAllString(strings.TrimSpace(lines[i+1]), "")
				i++
			}
			cur.frames = append(cur.frames, frame{fn: fn, file: file})
		}
	}
	return out
}

func shortKey(access [][]frame) string {
	var parts []string
	for _, st := range access {
		if len(st) > 0 {
			parts = append(parts, st[0].fn)
		}
	}
	return strings.Join(parts, "~")
}
