package sched

import "math/rand"

// NonPreemptive keeps running the last worker while it is enabled, otherwise
// the lowest enabled id.
type NonPreemptive struct{}

// Choose implements Chooser.
func (NonPreemptive) Choose(d Decision) int {
	if d.LastEnabled {
		return d.Last
	}
	return d.Enabled[0]
}

// Random picks uniformly, with probability Stay of continuing the last worker.
type Random struct {
	Rng  *rand.Rand
	Stay float64
}

// Choose implements Chooser.
func (c *Random) Choose(d Decision) int {
	if d.LastEnabled && c.Rng.Float64() < c.Stay {
		return d.Last
	}
	return d.Enabled[c.Rng.Intn(len(d.Enabled))]
}

// PCT is the random-priority scheduler of Burckhardt et al.: every worker gets
// a random priority; the highest-priority enabled worker runs; at Depth-1
// random change points (steps drawn below Horizon) the worker that would run
// is moved to the lowest priority.
type PCT struct {
	prio   []int
	change map[int]bool
	low    int
}

// NewPCT builds a PCT chooser for n workers.
func NewPCT(rng *rand.Rand, n, depth, horizon int) *PCT {
	p := &PCT{prio: make([]int, n), change: map[int]bool{}}
	perm := rng.Perm(n)
	for i, v := range perm {
		p.prio[i] = depth + v // initial priorities d..d+n-1
	}
	if horizon < 1 {
		horizon = 1
	}
	for i := 0; i < depth-1; i++ {
		p.change[rng.Intn(horizon)] = true
	}
	p.low = depth - 1
	return p
}

// Choose implements Chooser.
func (p *PCT) Choose(d Decision) int {
	best := func() int {
		b := d.Enabled[0]
		for _, id := range d.Enabled[1:] {
			if id < len(p.prio) && p.prio[id] > p.prio[b] {
				b = id
			}
		}
		return b
	}
	b := best()
	if p.change[d.Step] {
		p.low--
		p.prio[b] = p.low
		b = best()
	}
	return b
}

// Prefix forces a recorded sequence of worker choices and then falls back to
// the non-preemptive default; it is the replay / DFS chooser.
type Prefix struct {
	Forced   []int
	Diverged int // forced choices that were not enabled when their step came
}

// Choose implements Chooser.
func (p *Prefix) Choose(d Decision) int {
	if d.Step < len(p.Forced) {
		want := p.Forced[d.Step]
		for _, id := range d.Enabled {
			if id == want {
				return want
			}
		}
		p.Diverged++
	}
	return NonPreemptive{}.Choose(d)
}

// Explore performs a stateless depth-first exploration of all schedules with
// at most bound preemptions (a preemption = releasing a worker other than the
// previous one while the previous one is enabled). runOne executes one
// schedule with the given chooser and returns what was executed; it returns
// false to stop the exploration early. Explore returns the number of
// executions and whether the bounded space was exhausted within maxRuns.
func Explore(bound, maxRuns int, runOne func(ch *Prefix) (Result, bool)) (runs int, exhausted bool) {
	type node struct{ forced []int }
	stack := []node{{nil}}
	for len(stack) > 0 {
		if runs >= maxRuns {
			return runs, false
		}
		nd := stack[len(stack)-1]
		stack = stack[:len(stack)-1]
		ch := &Prefix{Forced: nd.forced}
		res, cont := runOne(ch)
		runs++
		if !cont {
			return runs, false
		}
		if ch.Diverged > 0 || res.Stuck || res.Freed {
			continue // timing-dependent prefix: do not branch from it
		}
		// preemptions used up to each step
		used := 0
		pre := make([]int, len(res.Trace)+1)
		for k, st := range res.Trace {
			pre[k] = used
			d := res.Decisions[k]
			if d.LastEnabled && st.Worker != d.Last {
				used++
			}
		}
		// branch at steps >= len(forced); push in reverse so that low steps are explored first
		for k := len(res.Trace) - 1; k >= len(nd.forced); k-- {
			d := res.Decisions[k]
			for i := len(d.Enabled) - 1; i >= 0; i-- {
				alt := d.Enabled[i]
				if alt == res.Trace[k].Worker {
					continue
				}
				cost := pre[k]
				if d.LastEnabled && alt != d.Last {
					cost++
				}
				if cost > bound {
					continue
				}
				f := make([]int, k+1)
				for j := 0; j < k; j++ {
					f[j] = res.Trace[j].Worker
				}
				f[k] = alt
				stack = append(stack, node{f})
			}
		}
	}
	return runs, true
}
