package sched

import (
	"math/rand"
	"sync"
	"testing"
)

func TestExploreAll(t *testing.T) {
	seen := map[uint64]bool{}
	runs, ex := Explore(100, 100000, func(ch *Prefix) (Result, bool) {
		r := New(Options{Chooser: ch})
		for i := 0; i < 2; i++ {
			r.Go("w", func(w *Worker) {
				w.Yield("a")
				w.Yield("b")
			})
		}
		res := r.Execute()
		seen[res.Hash] = true
		return res, true
	})
	// each worker has 3 segments (start,a,b): interleavings = C(6,3) = 20
	if !ex || len(seen) != 20 {
		t.Fatalf("runs=%d exhausted=%v distinct=%d", runs, ex, len(seen))
	}
}

func TestBlockedMutex(t *testing.T) {
	var mu sync.Mutex
	rng := rand.New(rand.NewSource(1))
	for i := 0; i < 50; i++ {
		r := New(Options{Chooser: &Random{Rng: rng, Stay: 0.3}})
		for k := 0; k < 3; k++ {
			r.Go("w", func(w *Worker) {
				mu.Lock()
				w.Yield("in-cs")
				mu.Unlock()
				w.Yield("out")
			})
		}
		res := r.Execute()
		if res.Stuck {
			t.Fatal("stuck")
		}
	}
}

func TestPCT(t *testing.T) {
	rng := rand.New(rand.NewSource(1))
	seen := map[uint64]bool{}
	for i := 0; i < 200; i++ {
		r := New(Options{Chooser: NewPCT(rng, 3, 3, 12)})
		for k := 0; k < 3; k++ {
			r.Go("w", func(w *Worker) { w.Yield("a"); w.Yield("b"); w.Yield("c") })
		}
		seen[r.Execute().Hash] = true
	}
	if len(seen) < 20 {
		t.Fatalf("distinct=%d", len(seen))
	}
}
