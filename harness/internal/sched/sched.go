// Package sched is the token-passing scheduler of DESIGN.md §3.4 (E-sched).
//
// A Run owns 2..n worker goroutines, each executing a short script of calls
// into the real code. At every yield site (utils.VerifYield, a blocking vfs
// hook, a storage wrapper, or an explicit harness yield) the worker parks and
// the scheduler goroutine decides who runs next, asking a Chooser (a
// "schedule" = a sequence of worker choices). Exactly one worker holds the
// token, except that a released worker which does not reach its next yield
// within BlockTimeout (default 2ms) is classified "blocked in real code"
// (mutex, channel, flock) and another worker is released concurrently, so
// yield sites inside critical sections cannot deadlock the harness.
//
// Nothing in here decides a verdict: the block timeout only shapes the
// schedule. The executed interleaving is the sequence of (worker, site) pairs
// in release order; its hash is what the checks count as a "distinct observed
// interleaving".
package sched

import (
	"hash/fnv"
	"runtime"
	"strconv"
	"sync"
	"sync/atomic"
	"time"
)

// Step is one executed scheduling decision: worker Worker was resumed from
// the yield site Site.
type Step struct {
	Worker int    `json:"w"`
	Site   string `json:"site"`
}

// Decision is the information a Chooser gets and a DFS explorer records.
type Decision struct {
	Step        int
	Enabled     []int // worker ids that are parked and whose condition holds (ascending)
	Last        int   // worker released at the previous step (-1 at the start)
	LastEnabled bool  // Last is in Enabled (choosing someone else is a preemption)
}

// Chooser picks the next worker to release; it returns a worker id that is a
// member of d.Enabled.
type Chooser interface {
	Choose(d Decision) int
}

// Options configures a Run.
type Options struct {
	Chooser      Chooser
	BlockTimeout time.Duration // default 2ms
	// OnStep is called on the scheduler goroutine before every release (the
	// token is with the scheduler; only workers classified blocked may be
	// running). Used for samplers.
	OnStep func()
	// OnStall is called (once per stall) when no worker can be released and
	// nothing arrived for StallTimeout: the caller may cancel contexts etc.
	OnStall      func()
	StallTimeout time.Duration // default 25ms
	// Watchdog bounds a stall after OnStall; on expiry the run is abandoned
	// (Result.Stuck) - the caller reports "inconclusive", never a verdict.
	Watchdog time.Duration // default 20s
	MaxSteps int           // default 5000; beyond it all workers run free
	// Free: no control at all - every yield is a runtime.Gosched() (stress runs
	// for the race detector, whose happens-before tracking the token passing would defeat).
	Free bool
	// OnRelease observes every executed step (scheduler goroutine).
	OnRelease func(s Step)
}

// Result describes one executed schedule.
type Result struct {
	Trace       []Step
	Decisions   []Decision // parallel to Trace (Enabled sets), for DFS
	Hash        uint64
	Blocked     int // releases classified "blocked in real code"
	Stalls      int
	Stuck       bool
	Freed       bool // MaxSteps exceeded, workers ran free afterwards
	Preemptions int
}

const (
	stNew = iota
	stParked
	stRunning
	stBlocked
	stDone
)

// Worker is one scheduled goroutine.
type Worker struct {
	ID   int
	Name string
	r    *Run

	resume chan struct{}
	fn     func(w *Worker)

	// owned by the scheduler goroutine
	state int
	site  string
	cond  func() bool
}

type event struct {
	w    *Worker
	done bool
	site string
	cond func() bool
}

// Run is one controlled execution.
type Run struct {
	opts    Options
	workers []*Worker
	events  chan event
	free    atomic.Bool
	// abandoned: the run was given up (stuck); WaitUntil stops waiting.
	abandoned atomic.Bool
	gids      sync.Map // goroutine id -> *Worker
	beats     atomic.Int64
}

// New creates a run.
func New(opts Options) *Run {
	if opts.BlockTimeout <= 0 {
		opts.BlockTimeout = 2 * time.Millisecond
	}
	if opts.StallTimeout <= 0 {
		opts.StallTimeout = 25 * time.Millisecond
	}
	if opts.Watchdog <= 0 {
		opts.Watchdog = 20 * time.Second
	}
	if opts.MaxSteps <= 0 {
		opts.MaxSteps = 5000
	}
	if opts.Chooser == nil {
		opts.Chooser = NonPreemptive{}
	}
	return &Run{opts: opts}
}

// Go registers a worker; must be called before Execute.
func (r *Run) Go(name string, fn func(w *Worker)) *Worker {
	w := &Worker{ID: len(r.workers), Name: name, r: r, resume: make(chan struct{}, 1), fn: fn}
	r.workers = append(r.workers, w)
	return w
}

// Yield parks the calling worker at a site until the scheduler releases it.
func (w *Worker) Yield(site string) { _ = w.yield(site, nil) }

// WaitUntil parks the worker; it is only eligible for release once cond()
// holds. cond is evaluated on the scheduler goroutine and must be safe to
// call concurrently with running workers (use atomics).
// It returns false if the run was abandoned before cond held (the script must
// then stop issuing operations that depend on it).
func (w *Worker) WaitUntil(site string, cond func() bool) bool { return w.yield(site, cond) }

func (w *Worker) spin(cond func() bool) bool {
	for cond != nil && !cond() {
		if w.r.abandoned.Load() {
			return false
		}
		time.Sleep(50 * time.Microsecond)
	}
	return true
}

func (w *Worker) yield(site string, cond func() bool) bool {
	if w.r.free.Load() {
		if w.r.opts.Free {
			runtime.Gosched()
		}
		return w.spin(cond)
	}
	w.r.events <- event{w: w, site: site, cond: cond}
	<-w.resume
	if w.r.free.Load() {
		return w.spin(cond)
	}
	return true
}

// Touch is a heartbeat for hooks that let a worker pass a site without
// parking: a worker that keeps touching is running, not stalled or stuck.
func (r *Run) Touch() { r.beats.Add(1) }

// Abandoned reports whether the run was given up.
func (r *Run) Abandoned() bool { return r.abandoned.Load() }

// Yield is the entry point for process-global hooks (utils.VerifSetYield):
// it parks the calling goroutine if it is a worker of this run and is a no-op
// for every other goroutine.
func (r *Run) Yield(site string) {
	if r.free.Load() {
		if r.opts.Free {
			runtime.Gosched()
		}
		return
	}
	if v, ok := r.gids.Load(curGID()); ok {
		v.(*Worker).yield(site, nil)
	}
}

// Current returns the worker bound to the calling goroutine, or nil.
func (r *Run) Current() *Worker {
	if v, ok := r.gids.Load(curGID()); ok {
		return v.(*Worker)
	}
	return nil
}

func curGID() uint64 {
	var buf [64]byte
	n := runtime.Stack(buf[:], false)
	// "goroutine 123 ["
	s := buf[:n]
	const p = len("goroutine ")
	i := p
	for i < len(s) && s[i] >= '0' && s[i] <= '9' {
		i++
	}
	id, _ := strconv.ParseUint(string(s[p:i]), 10, 64)
	return id
}

// Execute runs all workers to completion under the chooser and returns the
// executed interleaving.
func (r *Run) Execute() Result {
	n := len(r.workers)
	r.events = make(chan event, 4*n+4)
	if r.opts.Free {
		r.free.Store(true)
		var wg sync.WaitGroup
		for _, w := range r.workers {
			w := w
			wg.Add(1)
			go func() {
				defer wg.Done()
				r.gids.Store(curGID(), w)
				w.fn(w)
			}()
		}
		fin := make(chan struct{})
		go func() { wg.Wait(); close(fin) }()
		stalls := 0
		for {
			select {
			case <-fin:
				return Result{Freed: true, Stalls: stalls}
			case <-time.After(r.opts.Watchdog / 4):
				stalls++
				if r.opts.OnStall != nil {
					r.opts.OnStall()
				}
				if stalls >= 48 { // 12 x Watchdog without finishing: give up (inconclusive)
					r.abandoned.Store(true)
					select {
					case <-fin:
					case <-time.After(r.opts.Watchdog):
					}
					return Result{Freed: true, Stuck: true, Stalls: stalls}
				}
			}
		}
	}
	for _, w := range r.workers {
		w := w
		go func() {
			r.gids.Store(curGID(), w)
			w.yield("start", nil)
			w.fn(w)
			r.events <- event{w: w, done: true}
		}()
	}
	var res Result
	h := fnv.New64a()
	alive := n
	handle := func(ev event) {
		if ev.done {
			ev.w.state = stDone
			alive--
			return
		}
		ev.w.state = stParked
		ev.w.site = ev.site
		ev.w.cond = ev.cond
	}
	// all workers arrive at "start" first
	for arrived := 0; arrived < n; arrived++ {
		handle(<-r.events)
	}
	last := -1
	stalled, stallNotified := false, false
	lastBeat := int64(-1)
	var stallStart time.Time
	timer := time.NewTimer(time.Hour)
	defer timer.Stop()
	resetTimer := func(d time.Duration) {
		if !timer.Stop() {
			select {
			case <-timer.C:
			default:
			}
		}
		timer.Reset(d)
	}
	freeAll := func() {
		r.free.Store(true)
		for _, w := range r.workers {
			if w.state == stParked {
				w.state = stRunning
				w.resume <- struct{}{}
			}
		}
	}
	for alive > 0 {
		// drain
	drain:
		for {
			select {
			case ev := <-r.events:
				handle(ev)
			default:
				break drain
			}
		}
		if alive == 0 {
			break
		}
		if res.Freed || res.Stuck {
			// free-running tail: just wait for completion under the watchdog
			resetTimer(r.opts.Watchdog)
			select {
			case ev := <-r.events:
				handle(ev)
				if !ev.done {
					// a straggler parked after free was set cannot happen (yield checks free
					// before sending) except in a narrow window: release it.
					ev.w.state = stRunning
					ev.w.resume <- struct{}{}
				}
			case <-timer.C:
				res.Stuck = true
				res.Hash = h.Sum64()
				return res
			}
			continue
		}
		var enabled []int
		for _, w := range r.workers {
			if w.state == stParked && (w.cond == nil || w.cond()) {
				enabled = append(enabled, w.ID)
			}
		}
		if len(enabled) == 0 {
			if !stalled {
				stalled = true
				stallNotified = false
				stallStart = time.Now()
			}
			resetTimer(r.opts.StallTimeout)
			select {
			case ev := <-r.events:
				handle(ev)
				stalled = false
			case <-timer.C:
				if b := r.beats.Load(); b != lastBeat {
					lastBeat = b
					stalled = false
					continue
				}
				if !stallNotified {
					stallNotified = true
					res.Stalls++
					if r.opts.OnStall != nil {
						r.opts.OnStall()
					}
				}
				if time.Since(stallStart) >= r.opts.Watchdog {
					res.Stuck = true
					r.abandoned.Store(true)
					freeAll()
				}
			}
			continue
		}
		stalled = false
		if len(res.Trace) >= r.opts.MaxSteps {
			res.Freed = true
			freeAll()
			continue
		}
		if r.opts.OnStep != nil {
			r.opts.OnStep()
		}
		d := Decision{Step: len(res.Trace), Enabled: enabled, Last: last}
		for _, id := range enabled {
			if id == last {
				d.LastEnabled = true
			}
		}
		pick := r.opts.Chooser.Choose(d)
		ok := false
		for _, id := range enabled {
			if id == pick {
				ok = true
			}
		}
		if !ok {
			pick = enabled[0]
		}
		if d.LastEnabled && pick != last {
			res.Preemptions++
		}
		w := r.workers[pick]
		st := Step{Worker: pick, Site: w.site}
		res.Trace = append(res.Trace, st)
		res.Decisions = append(res.Decisions, d)
		h.Write([]byte{byte(pick)})
		h.Write([]byte(w.site))
		h.Write([]byte{0})
		if r.opts.OnRelease != nil {
			r.opts.OnRelease(st)
		}
		last = pick
		w.state = stRunning
		w.cond = nil
		w.resume <- struct{}{}
		resetTimer(r.opts.BlockTimeout)
	wait:
		for {
			select {
			case ev := <-r.events:
				handle(ev)
				if ev.w == w {
					break wait
				}
			case <-timer.C:
				w.state = stBlocked
				res.Blocked++
				break wait
			}
		}
	}
	res.Hash = h.Sum64()
	return res
}
