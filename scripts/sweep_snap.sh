#!/bin/bash
# sweep_snap.sh <seed> [ids...]: like sweep.sh, but runs from a snapshot copy of /verif (/work/sw<seed>), so that
# /verif can be edited meanwhile. Evidence and replays of these runs stay in the snapshot.
seed=$1; shift
ids="$@"; [ -z "$ids" ] && ids=$(python3 -c "import json;print(' '.join(json.load(open('/verif/scripts/built.json'))))")
TB=/work/sw$seed
mkdir -p $TB && rsync -a --delete --exclude .git --exclude bin --exclude replays --exclude evidence /verif/ $TB/ && mkdir -p $TB/bin $TB/evidence
cd $TB
for id in $ids; do
  s=$(date +%s); VERIF_SEED=$seed timeout 3000 ./check $id quick > /tmp/sweep_${seed}_$id.log 2>&1; rc=$?
  e=$(date +%s)
  echo "$id seed=$seed exit=$rc wall=$((e-s))s known=$(grep -c '^KNOWN-FINDING' /tmp/sweep_${seed}_$id.log) viol=$(grep -c '^VIOLATION' /tmp/sweep_${seed}_$id.log) $(grep -h 'INCONCLUSIVE' /tmp/sweep_${seed}_$id.log | head -1 | cut -c1-160)"
done
