#!/usr/bin/env python3
"""Assemble /verif/seeded/<id>/ from /work/mut/<id>/ (patch, demo, meta, confirm) + trial results."""
import json,os,shutil,glob,re
os.makedirs('/verif/seeded',exist_ok=True)
rows=[]
# latest result per (mutant, check) from the trial logs, in chronological order
ALL={}
logs=['wave1a.log','wave1b.log','wave2.log']+sorted([os.path.basename(f) for f in glob.glob('/work/mut_results/retry*.log')], key=lambda n:int(re.search(r'(\d+)',n).group(1)))
for lg in logs:
    path='/work/mut_results/'+lg
    if not os.path.exists(path): continue
    cur=None; last=None
    for line in open(path):
        m=re.match(r'== ([mn]\d+-\d+) ',line)
        if m: cur=m.group(1); continue
        m=re.match(r'(C\d+) exit=(\d+) (.*)',line)
        if m and cur:
            last=(cur,m.group(1)); ALL.setdefault(cur,{})[m.group(1)]={"exit":int(m.group(2)),"summary":m.group(3).strip(),"signatures":""}
            continue
        if last and line.startswith('   ') and line.strip():
            ALL[last[0]][last[1]]["signatures"]=line.strip()[:600]
for d in sorted(glob.glob('/work/mut/m*-*')+glob.glob('/work/mut/n*-*')):
    mid=os.path.basename(d)
    cf=os.path.join(d,'confirm.json')
    if not os.path.exists(cf) or mid not in ALL: continue
    try:
        conf=json.load(open(cf)); res=ALL[mid]; meta=json.load(open(os.path.join(d,'meta.json')))
    except Exception as e:
        print('skip',mid,e); continue
    ok = conf.get('builds') and conf.get('demo_passes_without') and conf.get('demo_fails_with') and conf.get('suite_passes_with')
    if not ok:
        print('NOT CONFIRMED',mid,conf); continue
    out=f'/verif/seeded/{mid}'; os.makedirs(out,exist_ok=True)
    for f in os.listdir(d):
        if f in ('confirm.json',): continue
        shutil.copy(os.path.join(d,f), os.path.join(out,f))
    if os.path.exists(os.path.join(d,'patch.rebased.diff')):
        shutil.copy(os.path.join(d,'patch.rebased.diff'), os.path.join(out,'patch.diff'))
    caught=[k for k,v in res.items() if isinstance(v,dict) and v.get('exit')==1]
    missed=[k for k,v in res.items() if isinstance(v,dict) and v.get('exit')==0]
    other=[k for k,v in res.items() if isinstance(v,dict) and v.get('exit') not in (0,1)]
    m={"property": meta.get('property'), "summary": meta.get('summary'), "needs": meta.get('needs'),
       "demonstration": meta.get('demo'), "producer_tests_run": meta.get('tests_run'),
       "independent_confirmation": {k:conf.get(k) for k in ('applies','builds','demo_passes_without','demo_fails_with','suite_passes_with','flakes','commands','notes')},
       "checks_run_against_it": {k:{"exit":v.get('exit'),"signatures":v.get('signatures'),"summary":v.get('summary')} for k,v in res.items() if isinstance(v,dict)},
       "caught_by": caught, "not_caught_by": missed, "inconclusive": other,
       "how_run": "scripts/try_mutant.sh seeded/%s/patch.diff out.json %s  (applies the patch to a scratch worktree of /repo HEAD and runs ./check <id> quick against it)" % (mid,' '.join(res.keys()))}
    json.dump(m,open(os.path.join(out,'meta.json'),'w'),indent=1)
    rows.append((mid,meta.get('property'),caught,missed,(meta.get('summary') or '')[:110]))
for r in rows: print(r)
print(len(rows),'assembled')
