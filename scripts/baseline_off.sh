#!/bin/bash
# Runs the repository's own test suite with the verif guard OFF and compares the
# set of passing tests with /root/.vp/BASELINE.json stable_pass. Exit 0 iff every
# stable_pass test passed.
set -u
export GOFLAGS=-mod=mod GOPROXY=off GOSUMDB=off GOTOOLCHAIN=local
OUT=$(mktemp /tmp/verif-baseline.XXXXXX.json)
trap 'rm -f "$OUT"' EXIT
(cd /repo && go1.26 test -json -vet=off -count=1 -timeout 25m ./... > "$OUT" 2>/dev/null)
python3 - "$OUT" <<'PY'
import json,sys
passed=set(); failed=set()
for line in open(sys.argv[1]):
    try: ev=json.loads(line)
    except Exception: continue
    t=ev.get('Test')
    if not t: continue
    name=ev['Package']+'::'+t
    if ev.get('Action')=='pass': passed.add(name)
    elif ev.get('Action')=='fail': failed.add(name)
base=json.load(open('/root/.vp/BASELINE.json'))['stable_pass']
missing=[t for t in base if t not in passed]
print(f"baseline stable_pass={len(base)} passed_now={len(passed)} failed_now={len(failed)} missing={len(missing)}")
for m in missing[:50]: print("MISSING", m)
sys.exit(1 if missing else 0)
PY
