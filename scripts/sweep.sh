#!/bin/bash
# sweep.sh <seed> [ids...]: run quick checks sequentially, print one line per check.
seed=$1; shift
ids="$@"; [ -z "$ids" ] && ids=$(python3 -c "import json;print(' '.join(json.load(open('/verif/scripts/built.json'))))")
cd /verif
for id in $ids; do
  s=$(date +%s); VERIF_SEED=$seed timeout 3000 ./check $id quick > /tmp/sweep_${seed}_$id.log 2>&1; rc=$?
  e=$(date +%s)
  echo "$id seed=$seed exit=$rc wall=$((e-s))s known=$(grep -c '^KNOWN-FINDING' /tmp/sweep_${seed}_$id.log) viol=$(grep -c '^VIOLATION' /tmp/sweep_${seed}_$id.log) $(grep -h 'INCONCLUSIVE' /tmp/sweep_${seed}_$id.log | head -1 | cut -c1-120)"
done
