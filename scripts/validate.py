#!/opt/veriftools/pyvenv/bin/python
"""Validate MANIFEST.json and every evidence file against the schemas."""
import json, sys, glob, jsonschema
ms = json.load(open('/root/.vp/MANIFEST.schema.json'))
es = json.load(open('/root/.vp/EVIDENCE.schema.json'))
ok = True
try:
    m = json.load(open('/verif/MANIFEST.json')); jsonschema.validate(m, ms)
    print("MANIFEST ok:", len(m['checks']), "checks,", len(m.get('not_applicable', [])), "not_applicable")
except Exception as e:
    ok = False; print("MANIFEST INVALID:", str(e)[:500])
for f in sorted(glob.glob('/verif/evidence/*.json')):
    try:
        e = json.load(open(f)); jsonschema.validate(e, es)
        c = e['coverage']
        print(f"{e['property_id']} {e['tier']} ok evals={c.get('evaluations')} distinct={c.get('distinct_nontrivial')} viol={e.get('violations')} wall={e['wall_s']:.0f}s")
    except Exception as ex:
        ok = False; print(f, "INVALID:", str(ex)[:300])
sys.exit(0 if ok else 1)
