#!/usr/bin/env python3
"""Generates /verif/MANIFEST.json from the table below. A property is claimed iff it is in BUILT."""
import json, subprocess

BUILT = json.load(open('/verif/scripts/built.json'))

# id: (engine, level, technique, level text, level note)
P = {
 "C01": ("E-seq", "exploration", "reference-map monitor over generated op sequences with forced flush/compaction/GC/reopen placements", "Every generated sequence of plain writes interleaved with explicit maintenance actions is replayed on the real DB and every key is swept through Get/GetCF after each action against a map model; evidence counts sequences in which a key had entries in >=2 on-disk sources.", "Trusts the harness model (a Go map) and hook H2/H3 accessors; covers layouts reachable with small data (L0, ingest buffer, base level)."),
 "C02": ("E-seq", "exploration", "version-map reference monitor over versioned writes with maintenance placements", "Versioned writes with equal/out-of-order versions are compared after every maintenance action with a per-key version map through GetVersionedEntry at every probe version.", "Model: last write per (key,version) wins; greatest version <= v is returned."),
 "C03": ("E-hist", "exploration", "offline MVCC snapshot/serializability checker over recorded concurrent transaction histories (race build)", "Concurrent transactions are recorded at the API boundary and checked offline: snapshot reads, repeatable reads, write-skew-free conflict rule in commit-ts order, atomic visibility.", "Unique values identify the observed write; final multi-version dump gives commit versions."),
 "C04": ("E-hist", "exploration", "offline atomicity/monotonicity checker over recorded commit histories incl. failing commits", "Checks all-or-nothing visibility at one version, no trace of failed commits (also after reopen), and real-time monotone commit versions.", "Only the failure kinds named by the statement are produced."),
 "C05": ("E-sched", "exploration", "controlled scheduling at VerifYield sites + snapshot checker on readers", "A token scheduler explores interleavings of commit-ts issue/registration and watermark advance against concurrent readers; reader observations are checked for repeatable, atomic, non-late visibility.", "Yield sites H4; distinct interleavings counted from executed (worker,site) sequences."),
 "C06": ("E-seq", "exploration", "ordered-list reference monitor for DB and txn iterators over option/seek combinations", "Iterator output under all option combinations and seek targets is compared with a sorted-list model and with point reads.", "Option semantics as documented per iterator type."),
 "C07": ("direct", "exploration", "differential monitor (skiplist vs ART vs independent comparator) + race detector on concurrent inserts", "Both memtable indexes are driven with the same key multisets (sequential and concurrent) and compared with an independent sorted-slice model for search, seek and both iteration directions; race reports inside the index files count as violations.", "Independent comparator written from the statement."),
 "C08": ("E-seq", "exploration", "reference-map monitor with value-log GC (forced rewrite + RunValueLogGC) incl. concurrent writers", "Values around the threshold across buckets/rotations are read back through every API after GC at arbitrary points; a concurrent variant checks last-acknowledged-wins per single-writer key.", "GC forced via H1 rewrite (bypasses sampling only)."),
 "C09": ("E-crash", "fault_enumeration", "real SIGKILL at enumerated file-operation ordinals (FaultFS hook) + acked-subset oracle", "The worker process is killed before the N-th durability-relevant file operation for enumerated N; a fresh process reopens and every acknowledged write must be present.", "Process crash model: bytes handed to the kernel survive."),
 "C10": ("E-crash", "fault_enumeration", "real SIGKILL crash enumeration + prefix-consistency oracle", "Recovered contents must equal the model after some prefix of the called batches; all present keys readable.", "Single writer so batches are totally ordered."),
 "C11": ("E-crash", "fault_enumeration", "crash enumeration followed by maintenance actions + dump-invariance oracle", "After recovery every maintenance action is run and the full dump must not change.", "Maintenance via H1/H2."),
 "C12": ("E-seq", "exploration", "multi-version dump equality across close/reopen + commit-ts monotonicity monitor", "Full internal dump before Close equals the dump after Open for generated histories; later commits get larger versions.", "Dump through NewInternalIterator."),
 "C13": ("direct", "fault_enumeration", "record-list model vs WAL replay at every truncation offset of the last segment", "For generated record sequences the final segment is cut at enumerated byte offsets; replay must equal the records wholly before the cut and re-append must keep them.", "Offsets: all (thorough) or boundary neighbourhoods + stride (quick)."),
 "C14": ("direct", "fault_enumeration", "single-bit-flip enumeration over WAL/vlog/SST artefacts with outputs-subset-of-originals oracle", "Each enumerated bit flip is applied to a copy and all readers run; anything returned as valid must equal originally written data.", "Child process per batch; panics with errors count as reported errors."),
 "C15": ("direct+E-crash", "fault_enumeration", "manifest edit-sequence model vs reload, with SIGKILL at every file operation", "Reloaded version equals the in-memory/model version after rewrites; after a crash it equals the model after an edit prefix covering all acked edits.", "Well-formed edits only."),
 "C16": ("direct", "exploration", "round-trip/order/hostile-input monitors with allocation accounting in child processes", "Codecs are round-tripped on boundary-value generators, key order compared with an independent comparator, decoders fed truncations/garbage/huge lengths under an allocation bound.", "Allocation bound 64*len+64KiB via MemStats.TotalAlloc."),
 "C17": ("E-seq/percolator", "exploration", "Percolator reference model monitor over kv.Apply request histories with maintenance placements", "Generated multi-transaction request histories are applied through raftstore/kv.Apply and every GET/SCAN is compared with a reference model written from the statement.", "Model independent of percolator package."),
 "C18": ("E-seq/percolator", "exploration", "Percolator outcome-finality rules over request histories incl. duplicates and replays", "Commit-after-rollback must fail, rollback-after-commit must not undo, replays change nothing, overlapping writers never both commit.", "Checked on responses plus subsequent reads."),
 "C19": ("E-seq/percolator", "exploration", "lock-lifetime monitor via Reader.GetLock across maintenance actions", "Lock present exactly from prewrite to commit/rollback across flush/compaction; TTL and min-commit-ts rules checked.", "Uses H2 for forced compactions."),
 "C20": ("direct", "exploration", "holder-counter monitor under stress + race detector + bounded-progress watchdog", "Atomic per-key holder counters detect overlapping holders; watchdog with quiescence rule detects deadlock.", "Liveness restated as bounded progress."),
 "C21": ("E-crash", "fault_enumeration", "SIGKILL enumeration (file ops and after-step points) over WALStorage Ready sequences", "After each acked raft persistence step a crash must leave the state recoverable exactly.", "Storage wired as raftstore/server does."),
 "C22": ("E-cluster", "exploration", "in-process 3-store cluster with hostile transport + applied-sequence and response-ownership monitors", "Per-store applied command sequences must be prefix-comparable and each successful proposal applied once with its own response.", "Harness transport and ticks."),
 "C23": ("E-cluster", "exploration", "porcupine linearizability check of recorded cluster read/write histories", "Reads/writes through any store under partitions and leader changes are checked as per-key registers.", "Timed-out ops stay open."),
 "C24": ("direct", "exploration", "interval-partition model monitor over split/merge/remove sequences via captured AdminApply", "After each op live ranges are a partition of the initial cover, epochs strictly increase, state moves forward, reload equals memory.", "Single store."),
 "C25": ("direct", "exploration", "exhaustive command-kind x key-position x epoch enumeration with independent acceptance predicate", "A reply without RegionError requires current epoch and all keys in range; scans stay in range.", "Empty keys excluded (rejected elsewhere)."),
 "C26": ("direct", "exploration", "region-list reference model monitor for PD heartbeats/lookups/reload", "Heartbeat acceptance, route lookup and reloaded catalog are compared with a list model.", "pd/server.Service over core.Cluster with LocalStore."),
 "C27": ("E-sched", "exploration", "controlled interleaving of allocators and checkpoint writes + returned<=persisted monitor with restart probes", "Responses unique/increasing; at every save completion the persisted checkpoint covers every returned value; restart from each persisted state allocates fresh values.", "Store wrapper is the yield point."),
 "C28": ("E-cluster", "fault_enumeration", "RPC fault enumeration through a client interceptor + all-or-nothing oracle after lock resolution", "Every RPC index of the 2PC sequence is failed (before/after server processing); after resolution the mutation set is all-visible or invisible.", "Real kv.Service over loopback gRPC."),
 "C29": ("binary", "exploration", "black-box Redis-subset reference model over the real nokv-redis binary", "Generated RESP sessions are compared reply by reply with a reference model.", "Errors compared by class."),
 "C30": ("binary", "exploration", "conservation monitor on concurrent INCR storms and NX races against the real binary", "Final counter == initial + sum of acknowledged deltas; at most one NX winner.", "Embedded backend (quick); raft cluster (thorough)."),
 "C31": ("binary", "exploration", "hostile RESP byte streams with liveness probe and expvar allocation accounting", "Process must survive, answer PING afterwards, and allocate <= 16x bytes sent + 1MiB; well-formed frames round-trip.", "Binary run under ulimit -v."),
 "C32": ("E-sched", "exploration", "controlled scheduling of watermark operations with conservative real-time rules + race detector", "DoneUntil samples never decrease nor reach a begun-unfinished index; WaitForMark returns only after prior begun indices finished.", "Yield sites H4."),
 "C33": ("E-sched", "exploration", "holder-counter monitor over scheduled AcquireDirLock/Release via blocking FaultFS hook (+multi-process intervals)", "At most one holder at any moment in explored interleavings.", "FaultFS hook parks contenders at LOCK open/close/remove."),
 "C34": ("E-hist", "exploration", "porcupine per-key register linearizability over recorded plain Set/Del/Get histories (race build)", "Concurrent plain API histories with throttling/oversize/close are checked linearizable.", "Failed writes are no-ops."),
 "C35": ("direct", "exploration", "stored-list model monitor over tables built through bare lsm", "Point lookups, seeks and iterations of built tables equal the stored list before and after reopen.", "Bare lsm.NewLSM without compactor."),
 "C36": ("E-crash", "fault_enumeration", "SIGKILL enumeration over flush/watchdog/raft-append interleavings + recoverability oracle", "After WAL syncs, a crash must not lose acked writes or untruncated raft entries.", "WAL synced after each step so only segment removal can lose data."),
 "C37": ("stress", "exploration", "liveness watchdog with quiescence rule under throttle/close stress", "Every call returns within the bound; stuck calls with no engine progress are violations.", "Bounded progress, not unbounded liveness."),
 "C38": ("direct", "exploration", "exhaustive bounded enumeration against an independent predicate", "Validate() is compared with a predicate written from the statement over ~1.4M topologies (all within the bounded ID domain).", "Bounded domain; larger random topologies in thorough."),
}

checks = []
na = []
for pid in sorted(P):
    eng, level, tech, text, note = P[pid]
    if pid in BUILT:
        checks.append({
            "property_id": pid,
            "quick_cmd": f"./check {pid} quick",
            "thorough_cmd": f"./check {pid} thorough",
            "evidence_file": f"/verif/evidence/{pid}.json",
            "replay_cmd_template": "./check --replay {path}",
            "engine": eng,
            "level_claimed": {"category": level, "text": text, "design_ref": f"DESIGN.md section 4, {pid}"},
            "level_note": note,
            "technique": "runtime monitoring: " + tech,
        })
    else:
        na.append({"property_id": pid, "reason": "runtime-monitoring check designed (DESIGN.md section 4) but not built/validated yet; not claimed until its quick command is silent on the unchanged tree"})

hooks = subprocess.run(["git", "-C", "/repo", "log", "--format=%H %s", "--grep=verif hook"], capture_output=True, text=True).stdout.strip().splitlines()
m = {
 "version": 1,
 "setup_cmd": "./check --build",
 "hooks": {
   "guard": "verif",
   "enable": "go build tag: go1.26 build -tags verif (the harness module replaces github.com/feichai0017/NoKV with /repo)",
   "baseline_off_cmd": "/verif/scripts/baseline_off.sh",
   "source_commits": [h.split()[0] for h in hooks],
   "add_only": True,
 },
 "engines": [
   {"name": "vcheck", "path": "/verif/harness", "serves_properties": sorted(BUILT), "kind_free_text": "Go harness: case runner in child processes, reference-model monitors, history checkers, crash enumeration, race-detector post-processing"},
 ],
 "checks": checks,
 "not_applicable": na,
 "notes": "All checks are runtime monitors over real executions of /repo built with -tags verif. Known findings: /verif/known_findings.json.",
}
json.dump(m, open('/verif/MANIFEST.json', 'w'), indent=1)
print("claimed", len(checks), "not claimed", len(na))
