#!/usr/bin/env python3
"""adopt_known.py <log>...: add to known_findings.json the candidate entries (collected from builders,
/work/known_candidates.json) whose signatures fired in the given check logs; prints signatures that
fired but have no candidate (those need triage)."""
import json,sys,re
k=json.load(open('/verif/known_findings.json')); have={f['signature'] for f in k['findings']}
cand=json.load(open('/work/known_candidates.json'))
for log in sys.argv[1:]:
    sigs=set(re.findall(r'^\s+signature: (.*)$', open(log).read(), re.M))
    for s in sorted(sigs):
        if s in have: continue
        if s in cand:
            k['findings'].append(cand[s]); have.add(s); print('adopted', s)
        else:
            print('NO CANDIDATE', s)
json.dump(k,open('/verif/known_findings.json','w'),indent=1)
