#!/bin/bash
# try_mutant.sh <patch.diff> <out.json> <check id>... : run checks against a scratch worktree of /repo with the
# patch applied (testbed /work/mt + /tmp/mt-repo), never touching /repo. Prints per-check verdicts.
set -u
PATCH="$1"; OUT="$2"; shift 2
export GOFLAGS=-mod=mod GOPROXY=off GOSUMDB=off GOTOOLCHAIN=local
TB=${MT_TB:-/work/mt}; WT=${MT_WT:-/tmp/mt-repo}
exec 8>${MT_LOCK:-/tmp/mt.lock}; flock 8
if [ ! -d $WT ]; then git -C /repo worktree add --detach $WT HEAD >/dev/null 2>&1; fi
git -C $WT checkout -q --detach "$(git -C /repo rev-parse HEAD)" && git -C $WT checkout -q -- . && git -C $WT clean -fdq
mkdir -p $TB && rsync -a --delete --exclude .git --exclude bin --exclude replays --exclude evidence /verif/ $TB/ && mkdir -p $TB/bin $TB/evidence
sed -i "s#=> /repo#=> $WT#" $TB/harness/go.mod
if ! git -C $WT apply "$PATCH" 2>/tmp/mt_apply.err && ! git -C $WT apply -3 "$PATCH" 2>>/tmp/mt_apply.err; then echo "{\"apply\": \"failed: $(tr -d '\"\n' </tmp/mt_apply.err | cut -c1-200)\"}" > "$OUT"; cat "$OUT"; exit 3; fi
echo "{" > "$OUT"
first=1
for id in "$@"; do
  log=/tmp/mt_$id.log
  (cd $TB && VERIF_REPO=$WT timeout 1800 ./check $id ${MT_TIER:-quick} > $log 2>&1); rc=$?
  sigs=$(grep -h "^  signature:" $log | sort | uniq -c | sort -rn | head -5 | sed 's/"/\\"/g' | tr '\n' ';')
  known=$(grep -c "^KNOWN-FINDING" $log)
  [ $first = 1 ] || echo "," >> "$OUT"; first=0
  echo "\"$id\": {\"exit\": $rc, \"known_lines\": $known, \"signatures\": \"$sigs\", \"summary\": \"$(grep "^$id quick" $log | tr -d '"' | cut -c1-200)\"}" >> "$OUT"
  echo "$id exit=$rc $(grep "^$id quick" $log | cut -c1-160)"; echo "   $sigs" | cut -c1-400
done
echo "}" >> "$OUT"
git -C $WT checkout -q -- . && git -C $WT clean -fdq
