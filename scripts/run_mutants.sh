#!/bin/bash
# run_mutants.sh "<mut> <ids...>" ... : sequential trials
for spec in "$@"; do
  set -- $spec; m=$1; shift
  p=/work/mut/$m/patch.diff; [ -f /work/mut/$m/patch.rebased.diff ] && p=/work/mut/$m/patch.rebased.diff
  [ -f $p ] || { echo "== $m: no patch"; continue; }
  echo "== $m ($*)"; /verif/scripts/try_mutant.sh $p /work/mut_results/$m.json "$@"
done
