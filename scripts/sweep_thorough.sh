#!/bin/bash
# sweep_thorough.sh ids... : run thorough tiers sequentially (niced)
cd /verif
for id in "$@"; do
  s=$(date +%s); VERIF_SEED=1 nice -n 10 timeout 5400 ./check $id thorough > /tmp/thorough_$id.log 2>&1; rc=$?
  e=$(date +%s)
  echo "$id thorough exit=$rc wall=$((e-s))s known=$(grep -c '^KNOWN-FINDING' /tmp/thorough_$id.log) viol=$(grep -c '^VIOLATION' /tmp/thorough_$id.log) $(grep -h 'INCONCLUSIVE' /tmp/thorough_$id.log | head -1 | cut -c1-160)"
done
